import Mitx.Driver.Restrict
import Mitx.Model.MathConfig
namespace Drv
open Lean Proto Mc

/-- op `math_config`: the cross-option validation of a math grader; returns "ok" or the ConfigError message -/
def mathConfig (j : Json) : Except String Json := do
  let uc ← getList (fun kv => do
    match (← getArr kv) with
    | [k, v] => do pure ((← getStr k), (← getBool v))
    | _ => throw "kv") (← field j "user_constants")
  let c : Cfg := {
    defaultFuncs := ← getList getStr (← field j "default_functions"), defaultVars := ← getList getStr (← field j "default_variables"),
    blacklist := ← getList getStr (← field j "blacklist"), whitelist := ← whitelistOfJson (← field j "whitelist"),
    variables := ← getList getStr (← field j "variables"), numberedVars := ← getList getStr (← field j "numbered_vars"),
    userConstants := uc, userFunctions := ← getList getStr (← field j "user_functions"), suppress := ← getBool (← field j "suppress_warnings") }
  match validate c with
  | none => pure (Json.mkObj [("out", Json.str "ok")])
  | some e => pure (Json.mkObj [("err", Json.str e.message)])

end Drv

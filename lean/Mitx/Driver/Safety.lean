import Mitx.Driver.Proto
import Mitx.Model.Safety
namespace Drv
open Lean Proto Sf

def brackets (j : Json) : Except String Json := do
  let s ← getStr (← field j "s")
  match validate s.toList with
  | .ok _ => pure (Json.mkObj [("out", Json.str "ok")])
  | .error (.closeWithoutOpen i) => pure (Json.mkObj [("err", Json.arr #[Json.str "close", jList jNat [i]])])
  | .error (.wrongClosing a b) => pure (Json.mkObj [("err", Json.arr #[Json.str "wrong", jList jNat [a, b]])])
  | .error (.openWithoutClose l) => pure (Json.mkObj [("err", Json.arr #[Json.str "open", jList jNat l])])

partial def pyValOfJson (j : Json) : Except String PyVal :=
  match j.getObjVal? "str" with
  | .ok s => do pure (.str (← getStr s))
  | .error _ =>
    match j.getObjVal? "list" with
    | .ok l => do pure (.list (← (← getArr l).mapM pyValOfJson))
    | .error _ => do pure (.other (← getStr (← field j "other")))

def ensureTextOp (j : Json) : Except String Json := do
  let al ← getBool (← field j "allow_lists")
  let as ← getBool (← field j "allow_single")
  let v ← pyValOfJson (← field j "v")
  match ensureText al as v with
  | .ok (.one s) => pure (Json.mkObj [("out", Json.str s)])
  | .ok (.many l) => pure (Json.mkObj [("out", jList Json.str l)])
  | .error (.both t) => pure (Json.mkObj [("err", Json.arr #[Json.str "both", Json.str t])])
  | .error (.wantList t) => pure (Json.mkObj [("err", Json.arr #[Json.str "wantList", Json.str t])])
  | .error (.badItem p t) => pure (Json.mkObj [("err", Json.arr #[Json.str "badItem", jNat p, Json.str t])])
  | .error (.wantSingle t) => pure (Json.mkObj [("err", Json.arr #[Json.str "wantSingle", Json.str t])])
  | .error .valueError => pure (Json.mkObj [("err", Json.arr #[Json.str "ValueError"])])

def matrixRecastOp (j : Json) : Except String Json := do
  let cfg : MCfg := ⟨← getBool (← field j "suppress"), ← getBool (← field j "shape_errors"), ← getBool (← field j "is_raised")⟩
  let e ← match (← getStr (← field j "exc")) with
    | "shape" => pure MErr.shape | "inputType" => pure MErr.inputType | "argShape" => pure MErr.argShape
    | "mathArray" => pure MErr.mathArray | _ => pure MErr.unrelated
  match matrixRecast cfg e with
  | .reraise => pure (Json.mkObj [("out", Json.str "raise")])
  | .zero m => pure (Json.mkObj [("out", Json.str (if m then "zero+msg" else "zero"))])

end Drv

import Mitx.Driver.Tol
import Mitx.Model.Comparers
namespace Drv
open Lean Proto Tl Cm

def verdictJson : Verdict → Json
  | .accept => Json.mkObj [("out", Json.bool true)]
  | .reject m => Json.mkObj [("out", Json.bool false), ("msg", Json.str m)]

def cmpBetween (j : Json) : Except String Json := do
  match between (← getRat (← field j "start")) (← getRat (← field j "stop")) (← cOfJson (← field j "x")) with
  | .ok b => pure (Json.mkObj [("out", Json.bool b)])
  | .error (.inputType m) => pure (Json.mkObj [("err", Json.arr #[Json.str "InputTypeError", Json.str m])])
  | .error (.config m) => pure (Json.mkObj [("err", Json.arr #[Json.str "ConfigError", Json.str m])])

def cmpCongruence (j : Json) : Except String Json := do
  pure (Json.mkObj [("out", Json.bool (congruence (← getRat (← field j "expected")) (← getRat (← field j "modulus"))
    (← getRat (← field j "student")) (← tolOfJson (← field j "tol"))))])

def cmpEigen (j : Json) : Except String Json := do
  let m ← getList (getList cOfJson) (← field j "matrix")
  pure (verdictJson (eigenvector m (← cOfJson (← field j "ev")) (← getList cOfJson (← field j "v")) (← tolOfJson (← field j "tol"))))

def cmpSpan (j : Json) : Except String Json := do
  pure (verdictJson (vectorSpan (← getList cOfJson (← field j "v")) (← getRat (← field j "res2")) (← tolOfJson (← field j "tol"))))

def cmpPhase (j : Json) : Except String Json := do
  pure (Json.mkObj [("out", Json.bool (vectorPhase (← getList cOfJson (← field j "target")) (← getList cOfJson (← field j "v"))
    (← getRat (← field j "res2")) (← tolOfJson (← field j "tol"))))])

def cmpEntry (j : Json) : Except String Json := do
  let samples ← getList (fun e => do
    match (← getArr e) with
    | [a, b] => do pure ((← getList cOfJson a), (← getList cOfJson b))
    | _ => .error "pair expected") (← field j "samples")
  let pc ← match (← field j "pc") with
    | .str "proportional" => pure Partial.proportional
    | x => do pure (Partial.flat (← getRat x))
  match matrixEntry samples (← tolOfJson (← field j "tol")) (← getNat (← field j "n")) pc with
  | .full => pure (Json.mkObj [("out", Json.str "1")])
  | .zero => pure (Json.mkObj [("out", Json.str "0")])
  | .partialCredit g => pure (Json.mkObj [("out", jRat g)])

def optRat (j : Json) : Except String (Option Rat) :=
  match j with
  | .null => pure none
  | x => do pure (some (← getRat x))

def cmpLinear (j : Json) : Except String Json := do
  let c ← field j "cfg"
  let cfg : LinCfg := ⟨← optRat (← field c "equals"), ← optRat (← field c "proportional"), ← optRat (← field c "offset"), ← optRat (← field c "linear"),
    ← getStr (← field c "equals_msg"), ← getStr (← field c "proportional_msg"), ← getStr (← field c "offset_msg"), ← getStr (← field c "linear_msg")⟩
  match linearComparer cfg (← getList getRat (← field j "x")) (← getList getRat (← field j "y")) (← tolOfJson (← field j "tol")) with
  | .ok r => pure (Json.mkObj [("out", Json.arr #[jRat r.1, Json.str r.2])])
  | .error (.config m) => pure (Json.mkObj [("err", Json.arr #[Json.str "ConfigError", Json.str m])])
  | .error (.inputType m) => pure (Json.mkObj [("err", Json.arr #[Json.str "InputTypeError", Json.str m])])

end Drv

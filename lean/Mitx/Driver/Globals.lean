import Mitx.Driver.Proto
import Mitx.Model.Globals
namespace Drv
open Lean Proto Gl

/-- JSON form of a Python value with identities: ["atom", s] | ["list", id, [..]] | ["dict", id, [[k, v]..]] | ["tuple", [..]] | ["opaque", id] -/
partial def pvOfJson (j : Json) : Except String PV := do
  match (← getArr j) with
  | [tag, a] =>
    match (← getStr tag) with
    | "atom" => pure (.atom (← getStr a))
    | "opaque" => pure (.opaque (← getNat a))
    | "tuple" => do pure (.tuple (← (← getArr a).mapM pvOfJson))
    | t => throw s!"bad tag {t}"
  | [tag, i, items] =>
    match (← getStr tag) with
    | "list" => do pure (.list (← getNat i) (← (← getArr items).mapM pvOfJson))
    | "dict" => do
      let kvs ← (← getArr items).mapM (fun kv => do
        match (← getArr kv) with
        | [k, v] => do pure ((← getStr k), (← pvOfJson v))
        | _ => throw "kv expected")
      pure (.dict (← getNat i) kvs)
    | t => throw s!"bad tag {t}"
  | _ => throw "pv expected"

partial def pvToJson : PV → Json
  | .atom s => Json.arr #[Json.str "atom", Json.str s]
  | .opaque i => Json.arr #[Json.str "opaque", jNat i]
  | .tuple items => Json.arr #[Json.str "tuple", Json.arr (items.map pvToJson).toArray]
  | .list i items => Json.arr #[Json.str "list", jNat i, Json.arr (items.map pvToJson).toArray]
  | .dict i items => Json.arr #[Json.str "dict", jNat i, Json.arr (items.map (fun kv => Json.arr #[Json.str kv.1, pvToJson kv.2])).toArray]

/-- op `coerce`: the object-identity model of `coerce2unicode`; `next` = first unused identity -/
def coerceOp (j : Json) : Except String Json := do
  let v ← pvOfJson (← field j "value")
  let n ← getNat (← field j "next")
  let r := coerce n v
  pure (Json.mkObj [("out", pvToJson r.2), ("next", jNat r.1)])

/-- op `np_hist`: a history of MatrixGrader calls [cfg, raises]; returns the switch seen inside each body and after each call -/
def npHist (j : Json) : Except String Json := do
  let calls ← getList (fun e => do
    match (← getArr e) with
    | [a, b] => do pure ((← getBool a), (← getBool b))
    | _ => throw "pair") (← field j "calls")
  let step := fun (acc : Bool × List Json) (c : Bool × Bool) =>
    let body : Bool → Bool × Beh Unit := fun b => (b, if c.2 then .raise "x" else .ret ())
    let r := withNP c.1 body acc.1
    (r.1, acc.2 ++ [Json.arr #[Json.bool c.1, Json.bool r.1]])
  let (_, outs) := calls.foldl step (defaultNP, [])
  pure (Json.mkObj [("out", Json.arr outs.toArray)])

end Drv

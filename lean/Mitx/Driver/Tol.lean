import Mitx.Driver.Attempt
import Mitx.Model.Tol
import Mitx.Model.FormulaPipe
namespace Drv
open Lean Proto Tl

def cOfJson (j : Json) : Except String C := do
  match (← getArr j) with
  | [a, b] => do pure ⟨← getRat a, ← getRat b⟩
  | _ => .error "complex pair expected"

def valOfJson (j : Json) : Except String Val :=
  match j with
  | .str "inf" => pure .pinf
  | .str "-inf" => pure .ninf
  | _ =>
    match j.getObjVal? "num" with
    | .ok n => do pure (.num (← cOfJson n))
    | .error _ => do
        let a ← field j "arr"
        pure (.arr (← getList getNat (← field a "shape")) (← getList cOfJson (← field a "es")))

def tolOfJson (j : Json) : Except String Tolerance :=
  match j.getObjVal? "abs" with
  | .ok t => do pure (.abs (← getRat t))
  | .error _ => do pure (.pct (← getRat (← field j "pct")))

def jOptBool : Option Bool → Json
  | some b => Json.mkObj [("out", Json.bool b)]
  | none => Json.mkObj [("err", Json.str "shape")]

def withinTolOp (j : Json) : Except String Json := do
  pure (jOptBool (withinTol (← valOfJson (← field j "x")) (← valOfJson (← field j "y")) (← tolOfJson (← field j "tol"))))

def formulaGradeOp (j : Json) : Except String Json := do
  let samples ← getList (fun e => do
    match (← getArr e) with
    | [a, b] => do pure ((← valOfJson a), (← valOfJson b))
    | _ => .error "pair expected") (← field j "samples")
  let tol ← tolOfJson (← field j "tol")
  let ans ← resOfJson (← field j "answer")
  let fe ← getNat (← field j "failable")
  match formulaGrade samples tol ans fe with
  | some r => pure (Json.mkObj [("out", resToJson r)])
  | none => pure (Json.mkObj [("err", Json.str "shape")])

end Drv

namespace Drv
open Lean Proto Tl

def envPairs (j : Json) : Except String (List (String × Rat)) :=
  getList (fun e => do
    match (← getArr e) with
    | [a, b] => do pure ((← getStr a), (← getRat b))
    | _ => .error "pair expected") j

/-- op `formula_pipeline`: the whole FormulaGrader default-comparer pipeline on strings and scripted samples -/
def formulaPipelineOp (j : Json) : Except String Json := do
  let answer ← getStr (← field j "answer")
  let student ← getStr (← field j "student")
  let hidden ← getList getStr (fieldD j "hidden" (Json.arr #[]))
  let sufs ← envPairs (fieldD j "sufs" (Json.arr #[]))
  let samples ← getList (fun e => do pure ({ vars := ← envPairs e, sufs := sufs } : EvQ.Env)) (← field j "samples")
  let tol ← tolOfJson (← field j "tol")
  let ans ← resOfJson (← field j "ans")
  let fe ← getNat (← field j "failable")
  match FP.pipeline answer student hidden samples tol ans fe with
  | .ok (some r) => pure (Json.mkObj [("out", resToJson r)])
  | .ok none => pure (Json.mkObj [("err", Json.str "shape")])
  | .error k => pure (Json.mkObj [("err", Json.str k)])

end Drv

import Mitx.Driver.Attempt
import Mitx.Driver.Parser
import Mitx.Model.Restrict
namespace Drv
open Lean Proto C03 Rs

def whitelistOfJson (j : Json) : Except String Whitelist :=
  match j with
  | .arr a =>
    if a.size = 0 then pure .unset
    else if a.size = 1 ∧ a[0]! == Json.null then pure .nothing
    else do pure (.only (← a.toList.mapM getStr))
  | _ => .error "whitelist"

/-- the student's formula against the restrictions: scope check, then (when credit was awarded) post-evaluation validation -/
def restrict (j : Json) : Except String Json := do
  let s ← getStr (← field j "s")
  let exprs ← getList getStr (fieldD j "exprs" (Json.arr #[Json.str s]))
  let c ← field j "cfg"
  let cfg : Cfg := {
    defaults := ← getList getStr (← field c "defaults"), whitelist := ← whitelistOfJson (← field c "whitelist"),
    blacklist := ← getList getStr (← field c "blacklist"), userFuncs := ← getList getStr (← field c "user_functions"),
    forbidden := ← getList getStr (← field c "forbidden"), required := ← getList getStr (← field c "required") }
  let sample ← getList getStr (← field j "sample_names")
  let instr ← getList getStr (← field j "instructor_vars")
  let sibs ← getList getStr (← field j "siblings")
  let funcs ← getList getStr (← field j "functions")
  let sufs ← getList getStr (← field j "suffixes")
  match lex s with
  | none => pure (Json.mkObj [("err", Json.arr #[Json.str "parse"])])
  | some ts =>
    match parseUsage ts with
    | none => pure (Json.mkObj [("err", Json.arr #[Json.str "parse"])])
    | some (_, sc) =>
      match checkScope (studentScope sample instr sibs) (fun f => funcs.contains f) (fun f => sufs.contains f) sc with
      | some (.undefinedVariable l) => pure (Json.mkObj [("err", Json.arr #[Json.str "UndefinedVariable", jList Json.str l])])
      | some (.undefinedFunction l) => pure (Json.mkObj [("err", Json.arr #[Json.str "UndefinedFunction", jList Json.str l])])
      | some (.undefinedSuffix l) => pure (Json.mkObj [("err", Json.arr #[Json.str "UndefinedSuffix", jList Json.str l])])
      | none =>
        match j.getObjVal? "raw" with
        | .error _ => pure (Json.mkObj [("out", Json.str "scope-ok")])
        | .ok rj => do
          let raw ← resOfJson rj
          match checkMath cfg raw exprs (dedupSorted (pick .func sc)) with
          | .ok r => pure (Json.mkObj [("out", resToJson r)])
          | .error .forbidden => pure (Json.mkObj [("err", Json.arr #[Json.str "forbidden"])])
          | .error (.missingRequired f) => pure (Json.mkObj [("err", Json.arr #[Json.str "required", Json.str f])])
          | .error (.notPermitted fs) => pure (Json.mkObj [("err", Json.arr #[Json.str "notPermitted", jList Json.str fs])])

/-- op `sum_scope`: the scope checks of the student's evaluation in SumGrader / IntegralGrader (model `Rs.sumScopeCheck`) -/
def sumScope (j : Json) : Except String Json := do
  let sample ← getList getStr (← field j "sample_names")
  let instr ← getList getStr (← field j "instructor_vars")
  let funcs ← getList getStr (← field j "functions")
  let sufs ← getList getStr (← field j "suffixes")
  let a ← field j "asked"
  let al ← getBool (← field a "lower"); let au ← getBool (← field a "upper"); let ab ← getBool (← field a "body")
  let asked : Entry → Bool := fun e => match e with | .lower => al | .upper => au | .body => ab
  let dummy ← getStr (← field j "dummy")
  let scOf := fun (key : String) => do
    let s ← getStr (← field j key)
    match lex s with
    | none => throw s!"parse {key}"
    | some ts => match parseUsage ts with
      | none => throw s!"parse {key}"
      | some (_, sc) => pure sc
  let scl ← scOf "lower"; let scu ← scOf "upper"; let scb ← scOf "body"
  let nameOf : Entry → String := fun e => match e with | .lower => "lower" | .upper => "upper" | .body => "body"
  match sumScopeCheck sample instr (fun f => funcs.contains f) (fun f => sufs.contains f) asked dummy scl scu scb with
  | none => pure (Json.mkObj [("out", Json.str "scope-ok")])
  | some (e, .undefinedVariable l) => pure (Json.mkObj [("err", Json.arr #[Json.str "UndefinedVariable", jList Json.str l, Json.str (nameOf e)])])
  | some (e, .undefinedFunction l) => pure (Json.mkObj [("err", Json.arr #[Json.str "UndefinedFunction", jList Json.str l, Json.str (nameOf e)])])
  | some (e, .undefinedSuffix l) => pure (Json.mkObj [("err", Json.arr #[Json.str "UndefinedSuffix", jList Json.str l, Json.str (nameOf e)])])

end Drv

import Lean.Data.Json
/-! Line protocol helpers for the correspondence driver (trusted test infrastructure, core Lean only). -/
namespace Proto
open Lean

def ratOfString? (s : String) : Option Rat :=
  match s.splitOn "/" with
  | [p] => p.toInt?.map (fun i => (i : Rat))
  | [p, q] => do
      let a ← p.toInt?
      let b ← q.toNat?
      if b = 0 then none else some (mkRat a b)
  | _ => none

def ratToString (r : Rat) : String :=
  if r.den = 1 then toString r.num else s!"{r.num}/{r.den}"

def jRat (r : Rat) : Json := Json.str (ratToString r)

def getRat (j : Json) : Except String Rat :=
  match j with
  | .str s => match ratOfString? s with
    | some r => .ok r
    | none => .error s!"bad rational {s}"
  | .num n => if n.exponent = 0 then .ok (n.mantissa : Rat) else .error "non-integer json number"
  | _ => .error "rational expected"

def getArr (j : Json) : Except String (List Json) :=
  match j with
  | .arr a => .ok a.toList
  | _ => .error "array expected"

def getStr (j : Json) : Except String String :=
  match j with
  | .str s => .ok s
  | _ => .error "string expected"

def getNat (j : Json) : Except String Nat :=
  match j with
  | .num n => if n.exponent = 0 ∧ n.mantissa ≥ 0 then .ok n.mantissa.toNat else .error "nat expected"
  | _ => .error "nat expected"

def getInt (j : Json) : Except String Int :=
  match j with
  | .num n => if n.exponent = 0 then .ok n.mantissa else .error "int expected"
  | _ => .error "int expected"

def getBool (j : Json) : Except String Bool :=
  match j with
  | .bool b => .ok b
  | _ => .error "bool expected"

def field (j : Json) (k : String) : Except String Json :=
  match j.getObjVal? k with
  | .ok v => .ok v
  | .error _ => .error s!"missing field {k}"

def fieldD (j : Json) (k : String) (d : Json) : Json :=
  match j.getObjVal? k with
  | .ok v => v
  | .error _ => d

def getList (f : Json → Except String α) (j : Json) : Except String (List α) := do
  (← getArr j).mapM f

def jList (f : α → Json) (l : List α) : Json := Json.arr (l.map f).toArray
def jNat (n : Nat) : Json := Json.num (JsonNumber.fromNat n)
def jInt (n : Int) : Json := Json.num (JsonNumber.fromInt n)

end Proto

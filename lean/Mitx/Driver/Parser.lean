import Mitx.Driver.Proto
import Mitx.Model.EvalQ
import Mitx.Model.ParserState
namespace Drv
open Lean Proto C03

def dedupSorted (l : List String) : List String :=
  (l.toArray.qsort (· < ·)).toList.eraseDups

def usageJson (sc : Sc) : Json :=
  let pick (k : Kind) := dedupSorted ((sc.filter (fun p => p.1 == k)).map (·.2))
  Json.mkObj [("vars", jList Json.str (pick .var)), ("funcs", jList Json.str (pick .func)), ("sufs", jList Json.str (pick .suf))]

/-- `parse(s)`: tree in pyparsing's shape and the three usage sets, or ERR -/
def parse (j : Json) : Except String Json := do
  let s ← getStr (← field j "s")
  match lex s with
  | none => pure (Json.mkObj [("out", Json.str "ERR")])
  | some ts =>
    match parseToks ts, parseUsage ts with
    | some t, some (t', sc) =>
        pure (Json.mkObj [("out", Json.str t.toStr), ("out2", Json.str t'.toStr), ("usage", usageJson sc)])
    | none, none => pure (Json.mkObj [("out", Json.str "ERR")])
    | _, _ => pure (Json.mkObj [("out", Json.str "INCONSISTENT")])

def pairs (j : Json) : Except String (List (String × Rat)) :=
  getList (fun e => do
    match (← getArr e) with
    | [a, b] => do pure ((← getStr a), (← getRat b))
    | _ => .error "pair expected") j

def eval (j : Json) : Except String Json := do
  let s ← getStr (← field j "s")
  let env : EvQ.Env := { vars := ← pairs (← field j "vars"), sufs := ← pairs (← field j "sufs") }
  match lex s with
  | none => pure (Json.mkObj [("err", Json.str "parse")])
  | some ts =>
    match parseUsage ts with
    | none => pure (Json.mkObj [("err", Json.str "parse")])
    | some (t, sc) =>
      match EvQ.evalChecked env t sc with
      | .val q => pure (Json.mkObj [("out", jRat q)])
      | .err k => pure (Json.mkObj [("err", Json.str k)])

end Drv

namespace Drv
open Lean Proto C03

/-- a history of `parse` calls on one parser object: per call the outcome, plus the observable state -/
def parseHist (j : Json) : Except String Json := do
  let calls ← getList getStr (← field j "calls")
  let step := fun (acc : PS.St × List Json) (s : String) =>
    let (st, outs) := acc
    let (st', o) := PS.parse st s
    let jo := match o with
      | .ok (t, sc) => Json.mkObj [("out", Json.str t.toStr), ("usage", usageJson sc)]
      | .unableToParse orig => Json.mkObj [("out", Json.str "ERR"), ("orig", Json.str orig)]
    let jo := jo.setObjVal! "scratch_empty" (Json.bool st'.scratch.isEmpty)
    let jo := jo.setObjVal! "cache" (jList Json.str (dedupSorted (st'.cache.map (·.1))))
    (st', outs ++ [jo])
  let (_, outs) := calls.foldl step (PS.init, [])
  pure (Json.mkObj [("out", Json.arr outs.toArray)])

end Drv

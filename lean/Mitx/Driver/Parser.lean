import Mitx.Driver.Proto
import Mitx.Model.EvalQ
import Mitx.Model.ParserState
import Mitx.Model.ParserHeap
namespace Drv
open Lean Proto C03

def dedupSorted (l : List String) : List String :=
  (l.toArray.qsort (· < ·)).toList.eraseDups

def usageJson (sc : Sc) : Json :=
  let pick (k : Kind) := dedupSorted ((sc.filter (fun p => p.1 == k)).map (·.2))
  Json.mkObj [("vars", jList Json.str (pick .var)), ("funcs", jList Json.str (pick .func)), ("sufs", jList Json.str (pick .suf))]

/-- `parse(s)`: tree in pyparsing's shape and the three usage sets, or ERR -/
def parse (j : Json) : Except String Json := do
  let s ← getStr (← field j "s")
  match lex s with
  | none => pure (Json.mkObj [("out", Json.str "ERR")])
  | some ts =>
    match parseToks ts, parseUsage ts with
    | some t, some (t', sc) =>
        pure (Json.mkObj [("out", Json.str t.toStr), ("out2", Json.str t'.toStr), ("usage", usageJson sc)])
    | none, none => pure (Json.mkObj [("out", Json.str "ERR")])
    | _, _ => pure (Json.mkObj [("out", Json.str "INCONSISTENT")])

def pairs (j : Json) : Except String (List (String × Rat)) :=
  getList (fun e => do
    match (← getArr e) with
    | [a, b] => do pure ((← getStr a), (← getRat b))
    | _ => .error "pair expected") j

def eval (j : Json) : Except String Json := do
  let s ← getStr (← field j "s")
  let env : EvQ.Env := { vars := ← pairs (← field j "vars"), sufs := ← pairs (← field j "sufs") }
  match lex s with
  | none => pure (Json.mkObj [("err", Json.str "parse")])
  | some ts =>
    match parseUsage ts with
    | none => pure (Json.mkObj [("err", Json.str "parse")])
    | some (t, sc) =>
      match EvQ.evalChecked env t sc with
      | .val q => pure (Json.mkObj [("out", jRat q)])
      | .err k => pure (Json.mkObj [("err", Json.str k)])

end Drv

namespace Drv
open Lean Proto C03

/-- a history of `parse` calls on one parser object: per call the outcome, plus the observable state -/
def parseHist (j : Json) : Except String Json := do
  let calls ← getList getStr (← field j "calls")
  let step := fun (acc : PS.St × List Json) (s : String) =>
    let (st, outs) := acc
    let (st', o) := PS.parse st s
    let jo := match o with
      | .ok (t, sc) => Json.mkObj [("out", Json.str t.toStr), ("usage", usageJson sc)]
      | .unableToParse orig => Json.mkObj [("out", Json.str "ERR"), ("orig", Json.str orig)]
    let jo := jo.setObjVal! "scratch_empty" (Json.bool st'.scratch.isEmpty)
    let jo := jo.setObjVal! "cache" (jList Json.str (dedupSorted (st'.cache.map (·.1))))
    (st', outs ++ [jo])
  let (_, outs) := calls.foldl step (PS.init, [])
  pure (Json.mkObj [("out", Json.arr outs.toArray)])

end Drv

namespace Drv
open Lean Proto C03

/-- the same history on the object-identity model: per call the object id bound to the parser afterwards, the id of the
    set object the returned expression holds, and the names read through every cached expression -/
def parseHistHeap (j : Json) : Except String Json := do
  let calls ← getList getStr (← field j "calls")
  let mode := match (j.getObjValD "mode") with | Json.str "clear" => PH.ResetMode.clear | _ => PH.ResetMode.rebind
  let step := fun (acc : PH.HSt × List Json) (s : String) =>
    let (st, outs) := acc
    let (st', o) := PH.parse mode st s
    let jo := match o with
      | .ok e => Json.mkObj [("expr", Json.num (e.2 : Nat)), ("usage", usageJson (PH.readExpr st' e).2)]
      | .unableToParse _ => Json.mkObj [("expr", Json.null)]
    let jo := jo.setObjVal! "scratch" (Json.num (st'.scratch : Nat))
    let jo := jo.setObjVal! "scratch_empty" (Json.bool (PH.hget st'.heap st'.scratch).isEmpty)
    let jo := jo.setObjVal! "cached" (Json.arr ((st'.cache.map (fun p => Json.mkObj [("key", Json.str p.1), ("id", Json.num (p.2.2 : Nat)),
      ("usage", usageJson (PH.readExpr st' p.2).2)])).toArray))
    (st', outs ++ [jo])
  let (_, outs) := calls.foldl step (PH.init, [])
  pure (Json.mkObj [("out", Json.arr outs.toArray)])

end Drv

import Mitx.Driver.Parser
import Mitx.Model.Depend
namespace Drv
open Lean Proto C03 Dp

def qvPairs (d : Dict EvQ.QV) : List (String × Rat) :=
  d.filterMap (fun p => match p.2 with | .val q => some (p.1, q) | .err _ => none)

/-- a DependentSampler: `depends` = variables used by the parsed formula, `compute_sample` = the evaluator -/
def depOfFormula (sufs : List (String × Rat)) (name formula : String) : Option (Dep EvQ.QV) :=
  match lex formula with
  | none => none
  | some ts =>
    match parseUsage ts with
    | none => none
    | some (t, sc) =>
      let deps := ((sc.filter (fun p => p.1 == Kind.var)).map (·.2)).eraseDups
      some ⟨name, deps, fun env => EvQ.evalChecked { vars := qvPairs env, sufs := sufs } t sc⟩

def qvIsErr : EvQ.QV → Bool
  | .err _ => true
  | .val _ => false

def failureJson : Failure → Json
  | .undefined ns => Json.mkObj [("err", Json.arr #[Json.str "undefined", jList Json.str ns])]
  | .circular ns => Json.mkObj [("err", Json.arr #[Json.str "circular", jList Json.str ns])]

/-- one sample of `gen_symbols_samples` -/
def depend (j : Json) : Except String Json := do
  let consts ← pairs (← field j "constants")
  let symbols ← getList getStr (← field j "symbols")
  let draws ← pairs (← field j "draws")
  let sufs ← pairs (fieldD j "sufs" (Json.arr #[]))
  let fs ← getList (fun e => do
    match (← getArr e) with
    | [a, b] => do pure ((← getStr a), (← getStr b))
    | _ => .error "pair expected") (← field j "deps")
  let deps? := fs.mapM (fun p => depOfFormula sufs p.1 p.2)
  match deps? with
  | none => pure (Json.mkObj [("err", Json.arr #[Json.str "parse"])])
  | some deps =>
    let toQ := fun (l : List (String × Rat)) => l.map (fun p => (p.1, EvQ.QV.val p.2))
    match genSampleE qvIsErr (toQ consts) symbols (toQ draws) deps with
    | .ok d => pure (Json.mkObj [("out", jList (fun p => Json.arr #[Json.str p.1, jRat p.2]) (qvPairs d)),
                                 ("depends", jList (fun (d : Dep EvQ.QV) => Json.arr #[Json.str d.name, jList Json.str (dedupSorted d.deps)]) deps)])
    | .formulaError n => pure (Json.mkObj [("err", Json.arr #[Json.str "formula", Json.str n])])
    | .fail f => pure (failureJson f)

/-- `generate_variable_list` -/
def varList (j : Json) : Except String Json := do
  let vars ← getList getStr (← field j "variables")
  let nv ← getList getStr (← field j "numbered")
  let used ← getList getStr (← field j "used")
  let (l, inst) := generateVariableList vars nv used
  pure (Json.mkObj [("out", jList Json.str l), ("inst", jList (fun p => Json.arr #[Json.str p.1, Json.str p.2]) inst)])

end Drv

import Mitx.Driver.Proto
import Mitx.Model.MatrixShape
namespace Drv
open Lean Proto Ms

def detailOfJson (j : Json) : Except String Detail :=
  match j with
  | .null => pure .none
  | .str "type" => pure .type
  | .str "shape" => pure .shape
  | _ => throw "detail"

/-- op `shape_validate`: `validate_student_input_shape(student, expected_shape, detail)` -/
def shapeValidate (j : Json) : Except String Json := do
  let e ← getList getNat (← field j "expected")
  let i ← getList getNat (← field j "input")
  let d ← detailOfJson (fieldD j "detail" Json.null)
  match validateShape e i d with
  | .ok () => pure (Json.mkObj [("out", Json.str "ok")])
  | .error m => pure (Json.mkObj [("err", Json.str m)])

/-- op `shape_ladder`: the `except` ladder of `MatrixGrader.check_response` -/
def shapeLadder (j : Json) : Except String Json := do
  let p : Policy := ⟨← getBool (← field j "suppress"), ← getBool (← field j "shape_errors"), ← getBool (← field j "is_raised")⟩
  let k ← match (← getStr (← field j "kind")) with
    | "ShapeError" => pure ErrKind.shapeError
    | "InputTypeError" => pure ErrKind.inputType
    | "other" => pure ErrKind.argShapeOrArray
    | _ => throw "kind"
  let msg ← getStr (← field j "msg")
  match ladder p k msg with
  | .raised m => pure (Json.mkObj [("out", Json.arr #[Json.str "raised", Json.str m])])
  | .zero m => pure (Json.mkObj [("out", Json.arr #[Json.str "zero", Json.str m])])

end Drv

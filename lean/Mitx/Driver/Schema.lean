import Mitx.Driver.Proto
import Mitx.Model.Schema
import Mitx.Generated.Schemas
namespace Drv
open Lean Proto Sc

partial def pyOfJson (j : Json) : Except String PyVal :=
  match j with
  | .null => pure .none
  | .bool b => pure (.bool b)
  | .num n => if n.exponent = 0 then pure (.int n.mantissa) else .error "non-integer json number"
  | .str s => pure (.str s)
  | _ =>
    match j.getObjVal? "f" with
    | .ok q => do pure (.num (← getRat q))
    | .error _ =>
    match j.getObjVal? "list" with
    | .ok l => do pure (.list (← (← getArr l).mapM pyOfJson))
    | .error _ =>
    match j.getObjVal? "tuple" with
    | .ok l => do pure (.tuple (← (← getArr l).mapM pyOfJson))
    | .error _ =>
    match j.getObjVal? "dict" with
    | .ok l => do
        let kvs ← (← getArr l).mapM (fun e => do
          match (← getArr e) with
          | [k, v] => do pure ((← getStr k), (← pyOfJson v))
          | _ => .error "pair expected")
        pure (.dict kvs)
    | .error _ => do pure (.obj (← getList getStr (← field j "obj")))

partial def pyToJson : PyVal → Json
  | .none => Json.null
  | .bool b => Json.bool b
  | .int n => jInt n
  | .num q => Json.mkObj [("f", jRat q)]
  | .str s => Json.str s
  | .list l => Json.mkObj [("list", Json.arr (l.map pyToJson).toArray)]
  | .tuple l => Json.mkObj [("tuple", Json.arr (l.map pyToJson).toArray)]
  | .dict l => Json.mkObj [("dict", Json.arr (l.map (fun p => Json.arr #[Json.str p.1, pyToJson p.2])).toArray)]
  | .obj t => Json.mkObj [("obj", jList Json.str t)]

/-- validate a configuration against the regenerated schema of a class; `prims` are taken as satisfied (the harness only
varies options whose domain contains no named validator function) -/
def schemaValidate (j : Json) : Except String Json := do
  let cls ← getStr (← field j "cls")
  let cfg ← (← getArr (← field j "cfg")).mapM (fun e => do
    match (← getArr e) with
    | [k, v] => do pure ((← getStr k), (← pyOfJson v))
    | _ => .error "pair expected")
  match GenSch.all.lookup cls with
  | none => .error s!"unknown class {cls}"
  | some (.dict fields extra) =>
    match validateDict (fun _ _ => true) fields extra cfg with
    | .ok out => pure (Json.mkObj [("out", Json.arr (out.map (fun p => Json.arr #[Json.str p.1, pyToJson p.2])).toArray)])
    | .error (.unknownKey k) => pure (Json.mkObj [("err", Json.arr #[Json.str "unknownKey", Json.str k])])
    | .error (.missing k) => pure (Json.mkObj [("err", Json.arr #[Json.str "missing", Json.str k])])
    | .error (.invalid k) => pure (Json.mkObj [("err", Json.arr #[Json.str "invalid", Json.str k])])
  | some _ => pure (Json.mkObj [("err", Json.arr #[Json.str "not-a-dict-schema"])])

end Drv

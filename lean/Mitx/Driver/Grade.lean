import Mitx.Driver.Proto
import Mitx.Driver.Attempt
import Mitx.Model.Grade
import Mitx.Model.Tree
import Mitx.Model.Interval
/-! JSON ↔ model plumbing for grader trees (trusted test infrastructure). -/
namespace Drv
open Lean Proto Gr

def okOfJson' (j : Json) : Except String At.Ok := okOfJson j

partial def itemAnswersOfJson (j : Json) : Except String (List (Answer UExp)) :=
  getList (fun a => do
    let exps ← getList (fun e => match e with
      | .str s => pure (UExp.str s)
      | .arr l => do pure (UExp.items (← l.toList.mapM itemAnswersOfJson))
      | _ => throw "bad expect entry") (← field a "expect")
    let g ← getRat (← field a "grade_decimal")
    let m ← getStr (← field a "msg")
    let o ← okOfJson' (← field a "ok")
    pure ⟨exps, ⟨g, m, o⟩⟩) j

/-- answers of a list grader: list of lists; entries are item answers (array of dicts) or nested list answers -/
partial def anyOfJson (isList : Bool) (j : Json) : Except String UAny :=
  if isList then do
    pure (.lists (← getList (fun al => getList (fun x => anyOfJson (match x with
      | .arr a => (a.toList.head?.map (fun h => match h with | .arr _ => true | _ => false)).getD false
      | _ => false) x) al) j))
  else do pure (.item (← itemAnswersOfJson j))

def tabOfJson (j : Json) : Except String (List TabEntry) :=
  getList (fun e => do
    let raises ← match e.getObjVal? "raise" with
      | .ok r => do
          let l ← getArr r
          match l with
          | [a, b, c] => do pure (some ((← getBool a), (← getStr b), (← getStr c)))
          | _ => throw "bad raise"
      | .error _ => pure none
    let k1 ← getStr (← field e "expect")
    let k2 ← getStr (← field e "input")
    let cr ← getRat (fieldD e "credit" (Json.str "0"))
    let ms ← getStr (fieldD e "msg" (Json.str ""))
    pure ⟨(k1, k2), cr, ms, raises⟩) j

/-- build an item grader tree from its JSON description -/
partial def buildItemTree (j : Json) : Except String ITree := do
  let ty ← getStr (← field j "type")
  let wrong ← getStr (fieldD j "wrong_msg" (Json.str ""))
  match ty with
  | "table" => do
      let tab ← tabOfJson (← field j "tab")
      pure (.table tab wrong)
  | "singlelist" => do
      let subj ← field j "sub"
      let sub ← buildItemTree subj
      let c ← field j "cfg"
      let o1 ← getBool (← field c "ordered")
      let o2 ← getBool (← field c "length_error")
      let o3 ← getBool (← field c "missing_error")
      let o4 ← getBool (← field c "partial_credit")
      let o5 ← getStr (← field c "delimiter")
      let o6 ← getStr (← field subj "type")
      let cfg : SLCfg := ⟨o1, o2, o3, o4, o5, o6 == "singlelist"⟩
      pure (.singlelist cfg wrong sub)
  | _ => throw s!"unknown item grader type {ty}"

def buildItem (j : Json) : Except String (List (Answer UExp) → String → M IRes) := do
  pure (← buildItemTree j).check

partial def buildListTree (j : Json) : Except String LTree := do
  let c ← field j "cfg"
  let l1 ← getBool (← field c "ordered")
  let l2 ← getBool (← field c "partial_credit")
  let l3 ← getList getNat (← field c "grouping")
  let cfg : LCfg := ⟨l1, l2, l3⟩
  let subsJ ← getArr (← field j "subs")
  let subs ← subsJ.mapM (fun sj => do
    let ty ← getStr (← field sj "type")
    if ty == "list" then do pure (STree.nested (← buildListTree sj))
    else do pure (STree.item (← buildItemTree sj)))
  pure (.list cfg subs)

def buildList (j : Json) : Except String (List (List UAny) → List String → M LOut) := do
  pure (← buildListTree j).check

def iresToJson (r : IRes) : Json :=
  Json.mkObj [("ok", okToJson r.ok), ("grade_decimal", jRat r.grade), ("msg", Json.str r.msg)]

def errToJson : Err → Json
  | .mitx cls msg => Json.mkObj [("err", Json.arr #[Json.str "mitx", Json.str cls, Json.str msg])]
  | .py cls msg => Json.mkObj [("err", Json.arr #[Json.str "py", Json.str cls, Json.str msg])]

/-- op `check`: `grader.check(answers, input)` without the call wrapper -/
def gradeCheck (j : Json) : Except String Json := do
  let g ← field j "grader"
  let ty ← getStr (← field g "type")
  if ty == "list" then do
    let f ← buildList g
    let ans ← match (← anyOfJson true (← field j "answers")) with | .lists ls => pure ls | _ => throw "list answers expected"
    let inp ← getList getStr (← field j "input")
    match f ans inp with
    | .ok o => pure (Json.mkObj [("out", Json.mkObj [("overall_message", Json.str o.overall),
        ("input_list", jList (fun e => match e with | some r => iresToJson r | none => Json.null) o.entries)])])
    | .error e => pure (errToJson e)
  else do
    let f ← buildItem g
    let ans ← itemAnswersOfJson (← field j "answers")
    let inp ← getStr (← field j "input")
    match f ans inp with
    | .ok r => pure (Json.mkObj [("out", iresToJson r), ("all_awarded", Json.bool r.allAwarded)])
    | .error e => pure (errToJson e)

/-- op `call`: the whole `grader(None, input, attempt=…)` including the wrapper -/
def gradeCall (j : Json) : Except String Json := do
  let g ← field j "grader"
  let ty ← getStr (← field g "type")
  let debug ← getBool (fieldD j "debug" (Json.bool false))
  let log ← getStr (fieldD j "log" (Json.str ""))
  let attMsg ← getBool (fieldD j "attempt_msg" (Json.bool true))
  let att : Option Int ← match fieldD j "attempt" Json.null with
    | .null => pure none
    | a => do pure (some (← getInt a))
  let sched : Option (Int → Rat) ← match fieldD j "sched" Json.null with
    | .null => pure none
    | s => do let f ← schedOfJson s; pure (some (fun n => (f n).getD 0))
  let cfg : CallCfg := { debug := debug, sched := sched, attemptMsg := attMsg }
  let (inp, res) ← if ty == "list" then do
      let f ← buildList g
      let ans ← match (← anyOfJson true (← field j "answers")) with | .lists ls => pure ls | _ => throw "list answers expected"
      let inp ← getList getStr (← field j "input")
      pure (GInput.many inp, (f ans inp).map CheckOut.list)
    else do
      let f ← buildItem g
      let ans ← itemAnswersOfJson (← field j "answers")
      let inp ← getStr (← field j "input")
      pure (GInput.one inp, (f ans inp).map CheckOut.single)
  match call cfg att log inp res with
  | .ok o => pure (Json.mkObj [("out", outToJson o)])
  | .error e => pure (errToJson e)

end Drv

namespace Drv
open Lean Proto Gr

def brAnsOfJson (j : Json) : Except String (List BrAns) :=
  getList (fun a => do
    pure ⟨← getList getStr (← field a "expect"), ← getRat (← field a "grade_decimal"), ← getStr (← field a "msg")⟩) j

/-- op `interval_check`: `IntervalGrader.check_response` over a table-driven subgrader for the bounds -/
def intervalCheck (j : Json) : Except String Json := do
  let c ← field j "cfg"
  let cfg : IvCfg := ⟨← getStr (← field c "opening"), ← getStr (← field c "closing"), ← getStr (← field c "delimiter"), ← getBool (← field c "partial_credit")⟩
  let tab ← tabOfJson (← field j "tab")
  let wrong ← getStr (fieldD j "wrong_msg" (Json.str ""))
  let sub := itemCheck (tableCR tab) wrong
  let mj ← field j "meta"
  let m : AnsMeta := ⟨← getRat (← field mj "grade_decimal"), ← getStr (← field mj "msg"), ← okOfJson' (← field mj "ok")⟩
  let opn ← brAnsOfJson (← field j "open")
  let cls ← brAnsOfJson (← field j "close")
  let lo ← itemAnswersOfJson (← field j "lo")
  let hi ← itemAnswersOfJson (← field j "hi")
  let inp ← getStr (← field j "input")
  match intervalCheckResponse cfg sub m opn lo hi cls inp with
  | .ok r => pure (Json.mkObj [("out", iresToJson r)])
  | .error e => pure (errToJson e)

end Drv

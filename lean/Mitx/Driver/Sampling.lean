import Mitx.Driver.Tol
import Mitx.Driver.MathArray
import Mitx.Model.Sampling
namespace Drv
open Lean Proto Tl Sp

def symOfJson (j : Json) : Except String Symmetry :=
  match j with
  | .null => pure .none
  | .str "diagonal" => pure .diagonal | .str "symmetric" => pure .symmetric | .str "antisymmetric" => pure .antisymmetric
  | .str "hermitian" => pure .hermitian | .str "antihermitian" => pure .antihermitian
  | _ => .error "symmetry"

def sampReal (j : Json) : Except String Json := do
  pure (Json.mkObj [("out", jRat (realInterval (← getRat (← field j "start")) (← getRat (← field j "stop")) (← getRat (← field j "u"))))])

def sampInt (j : Json) : Except String Json := do
  pure (Json.mkObj [("out", Json.bool (integerRangeValid (← getInt (← field j "start")) (← getInt (← field j "stop")) (← getInt (← field j "k"))))])

def sampSym (j : Json) : Except String Json := do
  let n ← getNat (← field j "n")
  let a ← getList cOfJson (← field j "a")
  pure (Json.mkObj [("out", jList cToJson (applySymmetry (← symOfJson (← field j "symmetry")) (← getBool (← field j "traceless")) n a))])

def sampAccepts (j : Json) : Except String Json := do
  let det ← match (← field j "determinant") with
    | .null => pure none
    | x => do pure (some (← getNat x))
  let c : SqCfg := ⟨← getNat (← field j "dimension"), ← symOfJson (← field j "symmetry"), ← getBool (← field j "traceless"), det, ← getBool (← field j "complex")⟩
  let br := match detOneBranch c with | .realScale => "real" | .complexScale => "complex" | .unknown => "unknown"
  pure (Json.mkObj [("out", Json.bool (accepts c)), ("branch", Json.str br), ("complex", Json.bool (effComplex c))])

def sampRF (j : Json) : Except String Json := do
  let terms ← getList (fun e => do
    match (← getArr e) with
    | [a, b] => do pure ((← getRat a), (← getRat b))
    | _ => .error "pair expected") (← field j "terms")
  pure (Json.mkObj [("out", jRat (randomFunctionValue (← getRat (← field j "center")) (← getRat (← field j "amplitude"))
    (← getNat (← field j "num_terms")) (← getNat (← field j "input_dim")) terms))])

end Drv

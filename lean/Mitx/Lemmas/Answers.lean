import Mitx.Model.Answers
import Mitx.Lemmas.Tree
/-! What the validation of `answers` guarantees: canonical form, credit in [0,1], `ok` pinned only at full credit, the bare and
the dictionary form are equivalent, re-validation of a canonical answer is the identity; validated answers satisfy the
well-formedness hypothesis of the grader-tree theorems (C01). -/
namespace Av
open At (Ok gradeToOk)

theorem schemaAnswer_spec {ε δ : Type} {vExp : ε → Option δ} {e : Option (Exp ε)} {g : Option Rat} {m : Option String}
    {o : Option OkIn} {u : Bool} {c : Canon δ} (h : schemaAnswer vExp e g m o u = some c) :
    u = false ∧ (∃ x, e = some x ∧ validateExpectTuple vExp x = some c.expect) ∧ c.grade = g.getD 1 ∧
      0 ≤ c.grade ∧ c.grade ≤ 1 ∧ c.msg = m.getD "" ∧
      c.ok = (if o.getD .computed = .computed ∨ c.grade ≠ 1 then gradeToOk c.grade else okOfIn (o.getD .computed) c.grade) := by
  unfold schemaAnswer at h
  split at h
  · simp at h
  · next hu =>
    split at h
    · simp at h
    · next x =>
      split at h
      · simp at h
      · next es hes =>
        simp only at h
        split at h
        · simp at h
        · next hg =>
          simp only [Option.some.injEq] at h
          subst h
          have hg' : 0 ≤ g.getD 1 ∧ g.getD 1 ≤ 1 := by
            constructor <;> (by_contra hc; apply hg; first | (left; linarith [not_le.mp hc]) | (right; linarith [not_le.mp hc]))
          exact ⟨by simpa using hu, ⟨x, rfl, hes⟩, rfl, hg'.1, hg'.2, rfl, rfl⟩

/-- **Canonical form**: a validated answer has a credit in [0,1], and its `ok` is the one computed from the credit unless the
    credit is exactly 1 (an author can pin `ok` only on a full-credit answer) -/
theorem validate_canonical {ε δ : Type} {vExp : ε → Option δ} {d : Option (List δ)} {r : Raw ε} {c : Canon δ}
    (h : validateSingle vExp d r = some c) : 0 ≤ c.grade ∧ c.grade ≤ 1 ∧ (c.ok ≠ gradeToOk c.grade → c.grade = 1) := by
  have key : ∀ {e g m o u}, schemaAnswer vExp e g m o u = some c → 0 ≤ c.grade ∧ c.grade ≤ 1 ∧ (c.ok ≠ gradeToOk c.grade → c.grade = 1) := by
    intro e g m o u hs
    obtain ⟨_, _, _, h0, h1, _, hok⟩ := schemaAnswer_spec hs
    refine ⟨h0, h1, fun hne => ?_⟩
    by_contra hg1
    rw [hok, if_pos (Or.inr hg1)] at hne
    exact hne rfl
  cases r with
  | bare x => simp only [validateSingle] at h; exact key h
  | dict e g m o u =>
    simp only [validateSingle] at h
    split at h
    · next c' hc' => simp only [Option.some.injEq] at h; subst h; exact key hc'
    · cases d with
      | none => simp at h
      | some es =>
        simp only [Option.map_some, Option.some.injEq] at h; subst h
        exact ⟨by norm_num, by norm_num, fun _ => rfl⟩

/-- the two documented forms agree: a bare expect value is the dictionary `{'expect': value}` -/
theorem bare_eq_dict {ε δ : Type} (vExp : ε → Option δ) (d : Option (List δ)) (x : Exp ε) :
    validateSingle vExp d (.bare x) = schemaAnswer vExp (some x) none none none false := by
  simp only [validateSingle, schemaAnswer]
  cases validateExpectTuple vExp x with
  | none => rfl
  | some es => simp [okOfIn, gradeToOk]

theorem mem_mapM_some {α β : Type} (f : α → Option β) : ∀ (l : List α) (out : List β), l.mapM f = some out →
    ∀ c ∈ out, ∃ r ∈ l, f r = some c
  | [], out, h, c, hc => by simp at h; subst h; simp at hc
  | x :: xs, out, h, c, hc => by
    rw [List.mapM_cons] at h
    cases hx : f x with
    | none => simp [hx] at h
    | some y =>
      cases hxs : xs.mapM f with
      | none => simp [hx, hxs] at h
      | some ys =>
        simp [hx, hxs] at h; subst h
        rcases List.mem_cons.mp hc with rfl | hc'
        · exact ⟨x, by simp, hx⟩
        · obtain ⟨r, hr, hfr⟩ := mem_mapM_some f xs ys hxs c hc'
          exact ⟨r, by simp [hr], hfr⟩

theorem mapM_some_self {δ : Type} (v : δ → Option δ) : ∀ (l : List δ), (∀ e ∈ l, v e = some e) → l.mapM v = some l
  | [], _ => rfl
  | x :: xs, h => by
    rw [List.mapM_cons, h x (by simp)]
    simp only [Option.pure_def, Option.bind_eq_bind, Option.bind_some]
    rw [mapM_some_self v xs (fun e he => h e (by simp [he]))]
    rfl

/-- **Re-validation is the identity**: the canonical dictionary handed back to the validator (`Cls(obj.config)`) yields itself,
    provided it came out of validation (credit in range, `ok` pinned only at full credit) and its expect entries are already
    valid (`validate_expect` is idempotent on its own outputs) -/
theorem revalidate_canonical {δ : Type} (v : δ → Option δ) (d : Option (List δ)) (c : Canon δ)
    (hexp : ∀ e ∈ c.expect, v e = some e) (h0 : 0 ≤ c.grade) (h1 : c.grade ≤ 1) (hok : c.ok ≠ gradeToOk c.grade → c.grade = 1) :
    validateSingle v d c.toRaw = some c := by
  simp only [Canon.toRaw, validateSingle, schemaAnswer, validateExpectTuple, mapM_some_self v c.expect hexp, Bool.false_eq_true,
    ↓reduceIte, Option.getD_some]
  have hr : ¬ (c.grade < 0 ∨ 1 < c.grade) := by rintro (h | h) <;> linarith
  simp only [hr, ↓reduceIte]
  congr 1
  cases c with
  | mk ex g m ok =>
    simp only at hok ⊢
    congr 1
    by_cases hg : g = 1
    · subst hg; cases ok <;> simp [okOfIn]
    · have : ok = gradeToOk g := by by_contra hne; exact hg (hok hne)
      subst this
      cases h : gradeToOk g <;> simp [hg]

/-- a validated answer as the grader tree sees it (text expect entries) -/
def toAnswer (c : Canon String) : Gr.Answer Gr.UExp := ⟨c.expect.map Gr.UExp.str, ⟨c.grade, c.msg, c.ok⟩⟩

/-- **Validated answers satisfy the hypothesis of the C01 tree theorems**: credits in [0,1] always; and when no `ok` was
    pinned (every `ok` is the computed one) also the `ok` consistency part -/
theorem validated_answers_wf {ε : Type} {vExp : ε → Option String} {d : Option (List String)} {answers : List (Raw ε)}
    {cs : List (Canon String)} (h : schemaAnswers vExp d answers = some cs) :
    Gr.AnsWF true (cs.map toAnswer) ∧ ((∀ c ∈ cs, c.ok = gradeToOk c.grade) → Gr.AnsWF false (cs.map toAnswer)) := by
  have hall : ∀ c ∈ cs, 0 ≤ c.grade ∧ c.grade ≤ 1 := by
    intro c hc
    unfold schemaAnswers at h
    obtain ⟨r, _, hr⟩ := mem_mapM_some _ _ _ h c hc
    exact ⟨(validate_canonical hr).1, (validate_canonical hr).2.1⟩
  constructor
  · refine .mk _ ?_ ?_
    · intro a ha
      obtain ⟨c, hc, rfl⟩ := List.mem_map.mp ha
      exact ⟨(hall c hc).1, (hall c hc).2, fun hp => by cases hp⟩
    · intro a ha e he
      obtain ⟨c, hc, rfl⟩ := List.mem_map.mp ha
      obtain ⟨s, _, rfl⟩ := List.mem_map.mp he
      exact .str s
  · intro hun
    refine .mk _ ?_ ?_
    · intro a ha
      obtain ⟨c, hc, rfl⟩ := List.mem_map.mp ha
      exact ⟨(hall c hc).1, (hall c hc).2, fun _ => hun c hc⟩
    · intro a ha e he
      obtain ⟨c, hc, rfl⟩ := List.mem_map.mp ha
      obtain ⟨s, _, rfl⟩ := List.mem_map.mp he
      exact .str s

end Av

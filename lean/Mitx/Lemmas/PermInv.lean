import Mitx.Lemmas.Optimal
import Mathlib.Algebra.BigOperators.Fin
/-! Permuting the inputs does not change the total credit of the optimal assignment found by `find_optimal_order`
    (hence not the unordered SingleListGrader grade). -/
namespace Gr
open Finset

/-- the optimal total is invariant under permuting the inputs -/
theorem findOptimalOrder_perm_invariant {α β ρ : Type} {check : α → β → M ρ} {grade : ρ → ℚ} {answers : List α}
    {inputs₁ inputs₂ : List β} {n : ℕ} (hn : 0 < n) (ha : answers.length = n) (h1 : inputs₁.length = n) (h2 : inputs₂.length = n)
    (π : Equiv.Perm (Fin n))
    (hπ : ∀ i : Fin n, inputs₂[i.1]'(by rw [h2]; exact i.2) = inputs₁[(π i).1]'(by rw [h1]; exact (π i).2))
    {out₁ out₂ : List ρ}
    (r1 : findOptimalOrder check grade answers inputs₁ = .ok out₁)
    (r2 : findOptimalOrder check grade answers inputs₂ = .ok out₂) :
    (out₁.map grade).sum = (out₂.map grade).sum ∧ out₁.length = out₂.length := by
  obtain ⟨R₁, τ₁, hR₁, ho₁, hopt₁⟩ := findOptimalOrder_optimal (grade := grade) hn ha h1 r1
  obtain ⟨R₂, τ₂, hR₂, ho₂, hopt₂⟩ := findOptimalOrder_optimal (grade := grade) hn ha h2 r2
  have hR : ∀ i j, R₂ i j = R₁ (π i) j := by
    intro i j
    have a := hR₂ i j
    have b := hR₁ (π i) j
    rw [hπ i] at a
    rw [a] at b
    exact (Except.ok.inj b)
  have s1 : (out₁.map grade).sum = ∑ i, grade (R₁ i (τ₁ i)) := by
    rw [ho₁, List.map_ofFn, List.sum_ofFn]; rfl
  have s2 : (out₂.map grade).sum = ∑ i, grade (R₂ i (τ₂ i)) := by
    rw [ho₂, List.map_ofFn, List.sum_ofFn]; rfl
  refine ⟨?_, by rw [ho₁, ho₂]; simp⟩
  rw [s1, s2]
  apply le_antisymm
  · -- the optimum for inputs₁, transported along π, is a candidate for inputs₂
    have := hopt₂ (π.trans τ₁)
    have e : ∑ i, grade (R₂ i ((π.trans τ₁) i)) = ∑ k, grade (R₁ k (τ₁ k)) := by
      simp only [hR, Equiv.trans_apply]
      exact Equiv.sum_comp π (fun k => grade (R₁ k (τ₁ k)))
    rw [e] at this; exact this
  · have := hopt₁ (π.symm.trans τ₂)
    have e : ∑ k, grade (R₁ k ((π.symm.trans τ₂) k)) = ∑ i, grade (R₂ i (τ₂ i)) := by
      simp only [hR, Equiv.trans_apply]
      rw [← Equiv.sum_comp π (fun k => grade (R₁ k (τ₂ (π.symm k))))]
      simp
    rw [e] at this; exact this

/-- extend a permutation of the first `k` positions by the identity on the padding positions -/
def extendPerm {k n : ℕ} (hkn : k ≤ n) (π : Equiv.Perm (Fin k)) : Equiv.Perm (Fin n) where
  toFun i := if h : i.1 < k then ⟨(π ⟨i.1, h⟩).1, lt_of_lt_of_le (π ⟨i.1, h⟩).2 hkn⟩ else i
  invFun i := if h : i.1 < k then ⟨(π.symm ⟨i.1, h⟩).1, lt_of_lt_of_le (π.symm ⟨i.1, h⟩).2 hkn⟩ else i
  left_inv i := by
    by_cases h : i.1 < k
    · have h' : (π ⟨i.1, h⟩).1 < k := (π ⟨i.1, h⟩).2
      simp [h, h']
    · simp [h]
  right_inv i := by
    by_cases h : i.1 < k
    · have h' : (π.symm ⟨i.1, h⟩).1 < k := (π.symm ⟨i.1, h⟩).2
      simp [h, h']
    · simp [h]

theorem padTo_getElem_lt {α : Type} (n : ℕ) (l : List α) (i : ℕ) (hi : i < l.length) (hi' : i < (padTo n l).length) :
    (padTo n l)[i] = some l[i] := by
  have : (padTo n l)[i]? = some (some l[i]) := by
    unfold padTo; rw [List.getElem?_append_left (by simpa using hi)]; simp [hi]
  rw [List.getElem?_eq_getElem hi'] at this; exact Option.some.inj this

theorem padTo_getElem_ge {α : Type} (n : ℕ) (l : List α) (i : ℕ) (hi : l.length ≤ i) (hi' : i < (padTo n l).length) :
    (padTo n l)[i] = none := by
  have : (padTo n l)[i]? = some none := by
    have hlen := hi'
    unfold padTo at hlen ⊢
    rw [List.getElem?_append_right (by simpa using hi)]
    simp only [List.length_map, List.length_append, List.length_replicate] at hlen ⊢
    rw [List.getElem?_replicate]; simp; omega
  rw [List.getElem?_eq_getElem hi'] at this; exact Option.some.inj this

theorem padTo_length' {α : Type} (n : ℕ) (l : List α) (h : l.length ≤ n) : (padTo n l).length = n := by
  unfold padTo; simp; omega

/-- padding commutes with permuting the (unpadded) items -/
theorem padTo_perm {α : Type} {k n : ℕ} (hkn : k ≤ n) {l₁ l₂ : List α} (h1 : l₁.length = k) (h2 : l₂.length = k)
    (π : Equiv.Perm (Fin k)) (hπ : ∀ i : Fin k, l₂[i.1]'(by rw [h2]; exact i.2) = l₁[(π i).1]'(by rw [h1]; exact (π i).2))
    (i : Fin n) :
    (padTo n l₂)[i.1]'(by rw [padTo_length' n l₂ (by omega)]; exact i.2) =
      (padTo n l₁)[(extendPerm hkn π i).1]'(by rw [padTo_length' n l₁ (by omega)]; exact (extendPerm hkn π i).2) := by
  by_cases h : i.1 < k
  · have e : (extendPerm hkn π i).1 = (π ⟨i.1, h⟩).1 := by simp [extendPerm, h]
    rw [padTo_getElem_lt n l₂ i.1 (by omega), padTo_getElem_lt n l₁ _ (by rw [e, h1]; exact (π ⟨i.1, h⟩).2)]
    congr 1
    have := hπ ⟨i.1, h⟩
    simp only [e]; exact this
  · have e : (extendPerm hkn π i).1 = i.1 := by simp [extendPerm, h]
    rw [padTo_getElem_ge n l₂ i.1 (by omega), padTo_getElem_ge n l₁ _ (by rw [e]; omega)]

end Gr

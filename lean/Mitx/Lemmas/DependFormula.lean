import Mitx.Lemmas.Depend
import Mitx.Lemmas.Rename
import Mitx.Model.EvalQ
/-! A DependentSampler whose `compute_sample` evaluates a parsed formula satisfies the locality contract `Local` that the C13
theorems assume: its value depends only on the variables reported for the formula (`depends = variables_used`). -/
namespace Dp
open C03 EvQ

mutual
theorem mapVars_id : ∀ t : T, mapVars id t = t
  | .num _ _ => rfl
  | .var _ => rfl
  | .call f args => by simp only [mapVars, mapVarsL_id args]
  | .arr xs => by simp only [mapVars, mapVarsL_id xs]
  | .paren t => by simp only [mapVars, mapVars_id t]
  | .power b rest => by simp only [mapVars, mapVars_id b, mapVarsP_id rest]
  | .neg t => by simp only [mapVars, mapVars_id t]
  | .par a rest => by simp only [mapVars, mapVars_id a, mapVarsL_id rest]
  | .prod a rest => by simp only [mapVars, mapVars_id a, mapVarsP_id rest]
  | .sum l a rest => by simp only [mapVars, mapVars_id a, mapVarsP_id rest]
theorem mapVarsL_id : ∀ ts : List T, mapVarsL id ts = ts
  | [] => rfl
  | t :: ts => by simp only [mapVarsL, mapVars_id t, mapVarsL_id ts]
theorem mapVarsP_id : ∀ ps : List (Bool × T), mapVarsP id ps = ps
  | [] => rfl
  | (b, t) :: ps => by simp only [mapVarsP, mapVars_id t, mapVarsP_id ps]
end

/-- the evaluator over a sample dictionary whose values may themselves be failures -/
def depAlg (env : Dict QV) : Alg QV :=
  (alg ⟨[], []⟩).withVar (fun s => (env.get s).getD (.err "undef-var"))

/-- the variables reported for a parsed formula (`variables_used`) -/
def varNames (t : T) : List String := (names t).filterMap (fun p => if p.1 == Kind.var then some p.2 else none)

theorem mem_varNames {t : T} {s : String} : s ∈ varNames t ↔ (Kind.var, s) ∈ names t := by
  unfold varNames
  simp only [List.mem_filterMap]
  constructor
  · rintro ⟨p, hp, h⟩
    split at h
    · next hk => simp only [Option.some.injEq] at h; subst h
                 have : p.1 = Kind.var := by simpa using hk
                 rw [← this]; exact hp
    · cases h
  · intro h; exact ⟨(Kind.var, s), h, by simp⟩

/-- a DependentSampler given by a formula: `depends` = the variables the parser reports, `compute_sample` = evaluation -/
def formulaDep (name : String) (t : T) : Dep QV := { name := name, deps := varNames t, eval := fun env => evalT (depAlg env) t }

/-- **Locality holds for formula dependents** — it is a theorem about the parser's usage report and the evaluator, not an
    assumption: two samples that agree on the variables reported for the formula give the same value -/
theorem formulaDep_local (name : String) (t : T) : Local (formulaDep name t) := by
  intro e1 e2 hagree
  have key := evalT_mapVars (depAlg e2) (fun s => (e1.get s).getD (.err "undef-var")) id t (by
    intro s hs
    have := hagree s (mem_varNames.mpr hs)
    simp only [id, depAlg, Alg.withVar, this])
  rw [mapVars_id] at key
  simpa [formulaDep, depAlg, Alg.withVar] using key

end Dp

import Mitx.Lemmas.Grade
import Mathlib.Data.List.Nodup
import Mathlib.Data.List.Range
/-! Grouping of ListGrader inputs: `create_grouping_map` yields a partition of the input positions, `groupify` hands group
    `g` exactly the inputs at its positions, and `ungroupify` stores the `j`-th result of group `g` at the position of the
    `j`-th input of that group — every result is reported at the position of the input it grades. -/
namespace Gr

/-- a grouping map is a partition of the positions `0 … N-1` -/
structure ValidMap (gs : List (List Nat)) (N : Nat) : Prop where
  nodup : gs.flatten.Nodup
  mem : ∀ i, i ∈ gs.flatten ↔ i < N

theorem le_foldl_max (l : List Nat) (a : Nat) : a ≤ l.foldl max a ∧ ∀ x ∈ l, x ≤ l.foldl max a := by
  induction l generalizing a with
  | nil => simp
  | cons y ys ih =>
    simp only [List.foldl_cons, List.mem_cons]
    obtain ⟨h1, h2⟩ := ih (max a y)
    refine ⟨le_trans (le_max_left _ _) h1, ?_⟩
    rintro x (rfl | hx)
    · exact le_trans (le_max_right _ _) h1
    · exact h2 x hx

/-- positions of the inputs that carry group number `g + 1` -/
def groupOf (grouping : List Nat) (g : Nat) : List Nat := (grouping.zipIdx.filter (fun p => p.1 == g + 1)).map (·.2)

theorem mem_groupOf {grouping : List Nat} {g i : Nat} : i ∈ groupOf grouping g ↔ grouping[i]? = some (g + 1) := by
  unfold groupOf
  simp only [List.mem_map, List.mem_filter, beq_iff_eq, Prod.exists, exists_eq_right]
  exact List.mem_zipIdx_iff_getElem?

theorem groupOf_nodup (grouping : List Nat) (g : Nat) : (groupOf grouping g).Nodup := by
  unfold groupOf
  have h : (grouping.zipIdx.map (·.2)).Nodup := by
    rw [List.zipIdx_map_snd]; exact List.nodup_range' ..
  exact (h.sublist ((List.filter_sublist).map _))

theorem createGroupingMap_eq {grouping : List Nat} {gs : List (List Nat)} (h : createGroupingMap grouping = some gs) :
    0 < grouping.foldl max 0 ∧ gs = (List.range (grouping.foldl max 0)).map (groupOf grouping) ∧
      (∀ x ∈ grouping, 1 ≤ x) ∧ ∀ g ∈ gs, g ≠ [] := by
  unfold createGroupingMap at h
  split at h
  · simp at h
  · next k hk =>
    simp only at h
    split at h
    · next hc =>
      simp only [Option.some.injEq] at h
      simp only [Bool.and_eq_true, List.all_eq_true, decide_eq_true_eq, Bool.not_eq_true'] at hc
      refine ⟨Nat.pos_of_ne_zero hk, ?_, hc.2, ?_⟩
      · rw [← h]; rfl
      · intro g hg
        rw [← h] at hg
        have := hc.1 g (by simpa [groupOf] using hg)
        intro e; subst e; simp at this
    · simp at h

/-- **`create_grouping_map` yields a partition** of the input positions; group `g` holds exactly the positions whose group
    number is `g + 1`, in increasing order of position. -/
theorem createGroupingMap_valid {grouping : List Nat} {gs : List (List Nat)} (h : createGroupingMap grouping = some gs) :
    ValidMap gs grouping.length ∧ ∀ g i, g < gs.length → (i ∈ gs.getD g [] ↔ grouping[i]? = some (g + 1)) := by
  obtain ⟨hk, rfl, hall, _⟩ := createGroupingMap_eq h
  set k := grouping.foldl max 0
  refine ⟨⟨?_, ?_⟩, ?_⟩
  · rw [List.nodup_flatten]
    refine ⟨?_, ?_⟩
    · intro l hl
      obtain ⟨g, _, rfl⟩ := List.mem_map.mp hl
      exact groupOf_nodup _ _
    · rw [List.pairwise_map]
      apply List.Pairwise.imp _ (List.nodup_range (n := k))
      intro a b hab
      simp only [Function.onFun, List.disjoint_left]
      intro i hi hi'
      rw [mem_groupOf] at hi hi'
      rw [hi] at hi'
      simp at hi'; exact hab hi'
  · intro i
    simp only [List.mem_flatten, List.mem_map, List.mem_range, exists_exists_and_eq_and]
    constructor
    · rintro ⟨g, _, hg⟩
      rw [mem_groupOf] at hg
      exact (List.getElem?_eq_some_iff.mp hg).1
    · intro hi
      have h1 := hall _ (List.getElem_mem hi)
      have h2 := (le_foldl_max grouping 0).2 _ (List.getElem_mem hi)
      refine ⟨grouping[i] - 1, by omega, ?_⟩
      rw [mem_groupOf, List.getElem?_eq_getElem hi]
      congr 1; omega
  · intro g i hg
    simp only [List.length_map, List.length_range] at hg
    simp only [List.getD_eq_getElem?_getD, List.getElem?_map, List.getElem?_range hg, Option.map_some, Option.getD_some]
    exact mem_groupOf

/-! ### `ungroupify` puts every result at the position of its input -/

/-- shape contract between a group and the result its subgrader returned: a one-input group gets a short-form result, a
    larger group the long form with one entry per input of the group -/
def Compat (g : List Nat) (r : SubRes) : Prop :=
  (g.length = 1 ∧ ∃ x, r = .single x) ∨ (g.length ≠ 1 ∧ ∃ l, r = .multi l ∧ l.length = g.length)

theorem groupItems_eq_flat {g : List Nat} {r : SubRes} (h : Compat g r) : groupItems g r = r.flat ∧ r.flat.length = g.length := by
  rcases h with ⟨h1, x, rfl⟩ | ⟨h1, l, rfl, hl⟩
  · match g, h1 with
    | [_], _ => simp [groupItems, SubRes.flat]
  · refine ⟨?_, by simpa [SubRes.flat] using hl⟩
    match g, h1 with
    | [], _ => simp [groupItems, SubRes.flat]
    | [_], h1 => simp at h1
    | _ :: _ :: _, _ => simp [groupItems, SubRes.flat]

theorem groupWrites_cons (g : List Nat) (gs : List (List Nat)) (r : SubRes) (rs : List SubRes) :
    groupWrites (g :: gs) (r :: rs) = g.zip (groupItems g r) ++ groupWrites gs rs := by
  simp [groupWrites]

theorem groupWrites_fst {gs : List (List Nat)} {nested : List SubRes} (h : List.Forall₂ Compat gs nested) :
    (groupWrites gs nested).map Prod.fst = gs.flatten := by
  induction h with
  | nil => simp [groupWrites]
  | cons hc _ ih =>
    rw [groupWrites_cons, List.map_append, ih, List.flatten_cons]
    congr 1
    obtain ⟨e, hl⟩ := groupItems_eq_flat hc
    rw [e, List.map_fst_zip]; omega

theorem groupWrites_mem {gs : List (List Nat)} {nested : List SubRes} (h : List.Forall₂ Compat gs nested)
    (g j : Nat) (hg : g < gs.length) (hg' : g < nested.length) (hj : j < gs[g].length) (hj' : j < nested[g].flat.length) :
    (gs[g][j], nested[g].flat[j]) ∈ groupWrites gs nested := by
  induction h generalizing g with
  | nil => simp at hg
  | @cons a r as rs hc _ ih =>
    rw [groupWrites_cons, List.mem_append]
    cases g with
    | zero =>
      left
      obtain ⟨e, hl⟩ := groupItems_eq_flat hc
      simp only [List.getElem_cons_zero] at hj hj' ⊢
      rw [e]
      exact List.mem_iff_getElem.mpr ⟨j, by simp; omega, by simp⟩
    | succ g' =>
      right
      simp only [List.getElem_cons_succ] at hj hj' ⊢
      exact ih g' (by simpa using hg) (by simpa using hg') hj hj'

theorem find_last_write {w : List (Nat × IRes)} (hnd : (w.map Prod.fst).Nodup) {i : Nat} {r : IRes} (hm : (i, r) ∈ w) :
    w.reverse.find? (fun x => x.1 == i) = some (i, r) := by
  cases hf : w.reverse.find? (fun x => x.1 == i) with
  | none =>
    have := List.find?_eq_none.mp hf (i, r) (by simpa using hm)
    simp at this
  | some x =>
    have h1 := List.find?_some hf
    have h2 := List.mem_of_find?_eq_some hf
    simp only [beq_iff_eq] at h1
    have hx : x ∈ w := by simpa using h2
    have := List.inj_on_of_nodup_map hnd hx hm (by simpa using h1)
    rw [this]

theorem foldl_max_le (l : List Nat) (a b : Nat) (ha : a ≤ b) (hl : ∀ x ∈ l, x ≤ b) : l.foldl max a ≤ b := by
  induction l generalizing a with
  | nil => simpa
  | cons y ys ih =>
    simp only [List.foldl_cons]
    exact ih _ (max_le ha (hl y (by simp))) (fun x hx => hl x (by simp [hx]))

theorem validMap_len {gs : List (List Nat)} {N : Nat} (hv : ValidMap gs N) (hN : 0 < N) : gs.flatten.foldl max 0 + 1 = N := by
  have h1 : gs.flatten.foldl max 0 ≤ N - 1 :=
    foldl_max_le _ 0 _ (by omega) (fun x hx => by have := (hv.mem x).mp hx; omega)
  have h2 : N - 1 ≤ gs.flatten.foldl max 0 := (le_foldl_max _ 0).2 _ ((hv.mem (N - 1)).mpr (by omega))
  omega

/-- **Every result is reported at the position of the input it grades.** For a partition `gs` of the `N` input positions
    and subgrader results of the matching shapes, `ungroupify` returns `N` entries and the entry at position `gs[g][j]` —
    the position of the `j`-th input of group `g` — is the `j`-th result the subgrader returned for group `g`. -/
theorem ungroupify_position {gs : List (List Nat)} {nested : List SubRes} {N : Nat} (hv : ValidMap gs N) (hN : 0 < N)
    (hs : List.Forall₂ Compat gs nested) :
    (ungroupify (some gs) nested).length = N ∧
    ∀ g j (hg : g < gs.length) (hg' : g < nested.length) (hj : j < gs[g].length) (hj' : j < nested[g].flat.length),
      (ungroupify (some gs) nested)[gs[g][j]]? = some (some (nested[g].flat[j])) := by
  unfold ungroupify
  simp only [validMap_len hv hN, List.length_map, List.length_range, true_and]
  intro g j hg hg' hj hj'
  have hp : gs[g][j] < N := (hv.mem _).mp (List.mem_flatten.mpr ⟨gs[g], List.getElem_mem hg, List.getElem_mem hj⟩)
  rw [List.getElem?_map, List.getElem?_range hp]
  simp only [Option.map_some]
  rw [find_last_write (by rw [groupWrites_fst hs]; exact hv.nodup) (groupWrites_mem hs g j hg hg' hj hj')]
  rfl

/-- `groupify` hands group `g` exactly the inputs at the positions of that group, in order -/
theorem groupify_group (gs : List (List Nat)) (l : List String) (g : Nat) (hg : g < gs.length) :
    (groupify (some gs) l)[g]? = some (match gs[g] with
      | [i] => GInput.one (l.getD i "")
      | grp => GInput.many (grp.map (fun i => l.getD i ""))) := by
  unfold groupify
  simp only [List.getElem?_map, List.getElem?_eq_getElem hg, Option.map_some]
  congr 1
  split <;> simp_all

end Gr

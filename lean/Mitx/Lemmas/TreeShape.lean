import Mitx.Lemmas.Tree
/-! Shape induction over list grader trees: for validly configured trees a successful `check` returns exactly one entry per
submitted input, none missing, at every nesting level. -/
namespace Gr

/-- a subgrader result has the shape of the input it was given -/
def ShapeOf : GInput → SubRes → Prop
  | .one _, .single _ => True
  | .many l, .multi rs => rs.length = l.length
  | _, _ => False

theorem shapeOf_one {s : String} {r : SubRes} (h : ShapeOf (.one s) r) : ∃ x, r = .single x := by
  cases r with
  | single x => exact ⟨x, rfl⟩
  | multi l => simp [ShapeOf] at h
theorem shapeOf_many {l : List String} {r : SubRes} (h : ShapeOf (.many l) r) : ∃ rs, r = .multi rs ∧ rs.length = l.length := by
  cases r with
  | single x => simp [ShapeOf] at h
  | multi rs => exact ⟨rs, rfl, h⟩

/-- all entries present -/
def Full (o : LOut) (n : ℕ) : Prop := o.entries.length = n ∧ ∀ e ∈ o.entries, e.isSome = true

/-- without grouping: one short-form result per input -/
theorem ungroupify_none_full {nested : List SubRes} (h : ∀ r ∈ nested, ∃ x, r = .single x) :
    (ungroupify none nested).length = nested.length ∧ ∀ e ∈ ungroupify none nested, e.isSome = true := by
  induction nested with
  | nil => simp [ungroupify]
  | cons r rs ih =>
    obtain ⟨x, rfl⟩ := h r (by simp)
    obtain ⟨i1, i2⟩ := ih (fun r' hr' => h r' (by simp [hr']))
    unfold ungroupify at i1 i2 ⊢
    simp only [List.flatMap_cons, List.cons_append, List.nil_append, List.length_cons, List.mem_cons] at i1 i2 ⊢
    refine ⟨by omega, ?_⟩
    rintro e (rfl | he)
    · rfl
    · exact i2 e he

theorem groupify_none (l : List String) : groupify none l = l.map GInput.one := rfl

/-- group `g` of `groupify`: a single text for a one-element group, else the list of the group's texts -/
theorem groupify_shape (gs : List (List ℕ)) (l : List String) (g : ℕ) (hg : g < gs.length) :
    ∃ gi, (groupify (some gs) l)[g]? = some gi ∧
      ((gs[g].length = 1 ∧ ∃ s, gi = .one s) ∨ (gs[g].length ≠ 1 ∧ ∃ ls, gi = .many ls ∧ ls.length = gs[g].length)) := by
  rw [groupify_group gs l g hg]
  refine ⟨_, rfl, ?_⟩
  match hgg : gs[g] with
  | [] => right; exact ⟨by simp, [], by simp, by simp⟩
  | [i] => left; exact ⟨rfl, _, rfl⟩
  | i :: j :: rest => right; exact ⟨by simp, _, rfl, by simp⟩

theorem compat_of_shape {grp : List ℕ} {gi : GInput} {r : SubRes}
    (hgi : (grp.length = 1 ∧ ∃ s, gi = .one s) ∨ (grp.length ≠ 1 ∧ ∃ ls, gi = .many ls ∧ ls.length = grp.length))
    (hs : ShapeOf gi r) : Compat grp r := by
  rcases hgi with ⟨h1, s, rfl⟩ | ⟨h1, ls, rfl, hl⟩
  · obtain ⟨x, rfl⟩ := shapeOf_one hs; exact Or.inl ⟨h1, x, rfl⟩
  · obtain ⟨rs, rfl, hr⟩ := shapeOf_many hs; exact Or.inr ⟨h1, rs, rfl, by rw [hr, hl]⟩

/-- with a valid grouping map and results of the shape of their groups: one entry per input, none missing -/
theorem ungroupify_some_full {gs : List (List ℕ)} {nested : List SubRes} {N : ℕ} (hv : ValidMap gs N) (hN : 0 < N)
    (hs : List.Forall₂ Compat gs nested) :
    (ungroupify (some gs) nested).length = N ∧ ∀ e ∈ ungroupify (some gs) nested, e.isSome = true := by
  obtain ⟨hl, hpos⟩ := ungroupify_position hv hN hs
  refine ⟨hl, ?_⟩
  intro e he
  obtain ⟨p, hp, rfl⟩ := List.mem_iff_getElem.mp he
  have hpN : p < N := by rw [← hl]; exact hp
  have hmem := (hv.mem p).mpr hpN
  obtain ⟨grp, hgrp, hpg⟩ := List.mem_flatten.mp hmem
  obtain ⟨g, hg, rfl⟩ := List.mem_iff_getElem.mp hgrp
  obtain ⟨j, hj, hjp⟩ := List.mem_iff_getElem.mp hpg
  have hlen := (forall2_get hs).1
  have hg' : g < nested.length := by rw [← hlen]; exact hg
  have hc := (forall2_get hs).2 g hg hg'
  have hj' : j < nested[g].flat.length := by rw [(groupItems_eq_flat hc).2]; exact hj
  have := hpos g j hg hg' hj hj'
  rw [hjp] at this
  rw [List.getElem?_eq_getElem hp] at this
  simp only [Option.some.injEq] at this
  rw [this]; rfl

theorem forall2_of_get {α β : Type} {R : α → β → Prop} : ∀ {l : List α} {rs : List β}, l.length = rs.length →
    (∀ i (h1 : i < l.length) (h2 : i < rs.length), R l[i] rs[i]) → List.Forall₂ R l rs
  | [], [], _, _ => .nil
  | [], _ :: _, hl, _ => by simp at hl
  | _ :: _, [], hl, _ => by simp at hl
  | a :: as, b :: bs, hl, h => by
    refine .cons (h 0 (by simp) (by simp)) (forall2_of_get (by simpa using hl) ?_)
    intro i h1 h2
    have := h (i + 1) (by simpa using h1) (by simpa using h2)
    simpa using this

theorem validMap_groups_pos {gs : List (List ℕ)} {N : ℕ} (hv : ValidMap gs N) (hN : 0 < N) : 0 < gs.length := by
  have := (hv.mem 0).mpr hN
  obtain ⟨grp, hg, _⟩ := List.mem_flatten.mp this
  exact List.length_pos_of_mem hg

/-- a grouped input is never an empty group -/
def GOK (g : GInput) : Prop := ∀ l, g = .many l → l ≠ []
theorem gok_one (s : String) : GOK (.one s) := fun l h => by cases h
theorem gok_of_shape {grp : List ℕ} {gi : GInput} (hne : grp ≠ [])
    (hgi : (grp.length = 1 ∧ ∃ s, gi = .one s) ∨ (grp.length ≠ 1 ∧ ∃ ls, gi = .many ls ∧ ls.length = grp.length)) : GOK gi := by
  rcases hgi with ⟨_, s, rfl⟩ | ⟨_, ls, rfl, hl⟩
  · exact gok_one s
  · intro l h; cases h
    intro e; subst e; simp at hl; exact hne (List.length_eq_zero_iff.mp hl.symm)

/-- `perform_check` on a valid configuration returns one entry per input, none missing -/
theorem performCheck_full {α : Type} {cfg : LCfg} {sub : ℕ → α → GInput → M SubRes} {answers : List α} {student : List String} {o : LOut}
    (hne : student ≠ [])
    (hgroup : cfg.grouping = [] ∨ ∃ gs, createGroupingMap cfg.grouping = some gs)
    (hsub : ∀ k a, (if cfg.ordered then answers[k]? = some a else (k = 0 ∧ a ∈ answers)) → ∀ g r, GOK g → sub k a g = .ok r → ShapeOf g r)
    (h : performCheck cfg sub answers student = .ok o) : Full o student.length := by
  obtain ⟨hlen, il, ho, hil⟩ := C05.performCheck_inv h
  have hspos : 0 < student.length := List.length_pos_iff.mpr hne
  rcases hgroup with hg0 | ⟨gs, hmap⟩
  · -- no grouping
    simp only [hg0, List.isEmpty_nil, ↓reduceIte] at hlen hil ho
    rw [groupify_none] at hil
    have hsingle : ∀ r ∈ il, ∃ x, r = .single x := by
      by_cases hord : cfg.ordered = true
      · simp only [hord, ↓reduceIte] at hil hsub
        have hf := (mapM_ok_iff _ _ _).mp hil
        intro r hr
        obtain ⟨p, hp, hpr⟩ := forall2_mem_right hf r hr
        have hp' := List.mem_zipIdx_iff_getElem?.mp hp
        obtain ⟨hk, hkeq⟩ := List.getElem?_eq_some_iff.mp hp'
        have hz : (answers.zip (student.map GInput.one))[p.2] = (answers[p.2]'(by simp at hk; omega), (student.map GInput.one)[p.2]'(by simp at hk ⊢; omega)) := by
          simp
        have ha : answers[p.2]? = some p.1.1 := by
          rw [List.getElem?_eq_getElem (by simp at hk; omega)]; rw [← hkeq, hz]
        have hgi : p.1.2 = GInput.one (student[p.2]'(by simp at hk; omega)) := by
          rw [← hkeq, hz]; simp
        have := hsub p.2 p.1.1 ha p.1.2 r (by rw [hgi]; exact gok_one _) hpr
        rw [hgi] at this
        exact shapeOf_one this
      · have hord' : cfg.ordered = false := by simpa using hord
        simp only [hord', Bool.false_eq_true, ↓reduceIte] at hil hsub
        intro r hr
        obtain ⟨a, ha, g, hg, hc⟩ := findOptimalOrder_mem hil r hr
        obtain ⟨s, _, rfl⟩ := List.mem_map.mp hg
        exact shapeOf_one (hsub 0 a ⟨rfl, ha⟩ _ r (gok_one _) hc)
    have hillen : il.length = student.length := by
      by_cases hord : cfg.ordered = true
      · simp only [hord, ↓reduceIte] at hil
        have hf := (mapM_ok_iff _ _ _).mp hil
        rw [← (forall2_get hf).1]; simp [hlen]
      · have hord' : cfg.ordered = false := by simpa using hord
        simp only [hord', Bool.false_eq_true, ↓reduceIte] at hil
        obtain ⟨R, τ, _, hout, _⟩ := findOptimalOrder_optimal (grade := SubRes.grade) hspos hlen (by simp) hil
        rw [hout]; simp
    obtain ⟨u1, u2⟩ := ungroupify_none_full hsingle
    rw [ho]; exact ⟨by rw [u1, hillen], u2⟩
  · -- grouping
    have hgne : cfg.grouping.isEmpty = false := by
      cases hc : cfg.grouping with
      | nil => rw [hc] at hmap; simp [createGroupingMap] at hmap
      | cons _ _ => rfl
    have hans : answers.length = gs.length := by
      have := C05.performCheck_groups_match hgne h
      simpa [groupsMatch, hmap] using this
    simp only [hgne, Bool.false_eq_true, ↓reduceIte, hmap] at hlen hil ho
    have hv := (createGroupingMap_valid hmap).1
    rw [hlen] at hv
    have hgpos := validMap_groups_pos hv hspos
    have hgl : (groupify (some gs) student).length = gs.length := by simp [groupify]
    have hgne' : ∀ g ∈ gs, g ≠ [] := (createGroupingMap_eq hmap).2.2.2
    have hcompat : List.Forall₂ Compat gs il := by
      by_cases hord : cfg.ordered = true
      · simp only [hord, ↓reduceIte] at hil hsub
        have hf := (mapM_ok_iff _ _ _).mp hil
        obtain ⟨hl2, hget⟩ := forall2_get hf
        have hillen : il.length = gs.length := by rw [← hl2]; simp [hans, hgl]
        apply forall2_of_get hillen.symm
        intro k hk1 hk2
        have hkz : k < ((answers.zip (groupify (some gs) student)).zipIdx).length := by simp [hans, hgl]; exact hk1
        have hrel := hget k hkz hk2
        simp only [List.getElem_zipIdx, List.getElem_zip, Nat.zero_add] at hrel
        obtain ⟨gi, hgi, hshape⟩ := groupify_shape gs student k hk1
        have hgi' : (groupify (some gs) student)[k]'(by rw [hgl]; exact hk1) = gi := by
          have := List.getElem?_eq_some_iff.mp hgi; exact this.2
        rw [hgi'] at hrel
        have ha : answers[k]? = some (answers[k]'(by rw [hans]; exact hk1)) := List.getElem?_eq_getElem _
        exact compat_of_shape hshape (hsub k _ ha gi _ (gok_of_shape (hgne' _ (List.getElem_mem hk1)) hshape) hrel)
      · have hord' : cfg.ordered = false := by simpa using hord
        simp only [hord', Bool.false_eq_true, ↓reduceIte] at hil hsub
        obtain ⟨R, τ, hR, hout, _⟩ := findOptimalOrder_optimal (grade := SubRes.grade) hgpos hans hgl hil
        have hillen : il.length = gs.length := by rw [hout]; simp
        apply forall2_of_get hillen.symm
        intro k hk1 hk2
        have hrel := hR ⟨k, hk1⟩ (τ ⟨k, hk1⟩)
        obtain ⟨gi, hgi, hshape⟩ := groupify_shape gs student k hk1
        have hgi' : (groupify (some gs) student)[k]'(by rw [hgl]; exact hk1) = gi := by
          have := List.getElem?_eq_some_iff.mp hgi; exact this.2
        simp only [hgi'] at hrel
        have hk : il[k] = R ⟨k, hk1⟩ (τ ⟨k, hk1⟩) := by simp [hout]
        rw [hk]
        exact compat_of_shape hshape (hsub 0 _ ⟨rfl, List.getElem_mem _⟩ gi _ (gok_of_shape (hgne' _ (List.getElem_mem hk1)) hshape) hrel)
    obtain ⟨u1, u2⟩ := ungroupify_some_full hv hspos hcompat
    rw [ho]; exact ⟨u1, u2⟩

theorem full_zero {o : LOut} {n : ℕ} (h : Full o n) :
    Full { o with entries := o.entries.map (fun e => e.map (fun r => { r with ok := .no, grade := 0 })) } n := by
  refine ⟨by simpa using h.1, ?_⟩
  intro e he
  simp only [List.mem_map] at he
  obtain ⟨e0, he0, rfl⟩ := he
  have := h.2 e0 he0
  cases e0 <;> simp_all

/-- `ListGrader.check` on a valid configuration returns one entry per input, none missing -/
theorem listCheck_full {α : Type} {cfg : LCfg} {sub : ℕ → α → GInput → M SubRes} {answers : List (List α)} {student : List String} {o : LOut}
    (hne : student ≠ [])
    (hcfg : ∀ al ∈ answers, (cfg.grouping = [] ∨ ∃ gs, createGroupingMap cfg.grouping = some gs) ∧
      ∀ k a, (if cfg.ordered then al[k]? = some a else (k = 0 ∧ a ∈ al)) → ∀ g r, GOK g → sub k a g = .ok r → ShapeOf g r)
    (h : listCheck cfg sub answers student = .ok o) : Full o student.length := by
  unfold listCheck at h
  simp only [bind, Except.bind, pure, Except.pure] at h
  split at h
  · simp [throw, throwThe, MonadExceptOf.throw] at h
  · split at h
    · cases h
    · next results hres =>
      split at h
      · simp [throw, throwThe, MonadExceptOf.throw] at h
      · next best hbest =>
        have hbm := (C05.best_list_maximal hbest).1
        have hf := (mapM_ok_iff _ _ _).mp hres
        obtain ⟨al, hal, hpc⟩ := forall2_mem_right hf best hbm
        have hfull := performCheck_full hne (hcfg al hal).1 (hcfg al hal).2 hpc
        split at h
        · simp only [Except.ok.injEq] at h; subst h; exact full_zero hfull
        · simp only [Except.ok.injEq] at h; subst h; exact hfull

/-- the subgrader a ListGrader uses for position `k` (one for all positions, or one per position) -/
def subFor (subs : List STree) (k : ℕ) : Option STree := subs[if subs.length == 1 then 0 else k]?

theorem runAt_eq : ∀ (subs : List STree) (j : ℕ), runAt subs j = match subs[j]? with
    | some s => s.run
    | none => fun _ _ => throw (.py "IndexError" "no such subgrader")
  | [], j => by simp [runAt]
  | s :: rest, 0 => by simp [runAt]
  | s :: rest, j + 1 => by simp only [runAt, List.getElem?_cons_succ]; exact runAt_eq rest j

mutual
/-- validly configured list grader together with its answers: an accepted grouping (or none); the answers handed to nested
    graders are again for validly configured graders -/
inductive ListOK : LTree → List (List UAny) → Prop
  | mk (cfg : LCfg) (subs : List STree) (answers : List (List UAny)) :
      (cfg.grouping = [] ∨ ∃ gs, createGroupingMap cfg.grouping = some gs) →
      (∀ al ∈ answers, ∀ k a, (if cfg.ordered then al[k]? = some a else (k = 0 ∧ a ∈ al)) → ∀ s, subFor subs k = some s → SubOK s a) →
      ListOK (.list cfg subs) answers
inductive SubOK : STree → UAny → Prop
  | item (t : ITree) (a : UAny) : SubOK (.item t) a
  | nestedItem (t : LTree) (l : List (Answer UExp)) : SubOK (.nested t) (.item l)
  | nested (t : LTree) (ls : List (List UAny)) : ListOK t ls → SubOK (.nested t) (.lists ls)
end

mutual
/-- **One entry per submitted input, none missing, at every nesting level.** -/
theorem LTree.check_full : ∀ (t : LTree) (answers : List (List UAny)) (student : List String) (out : LOut),
    ListOK t answers → student ≠ [] → t.check answers student = .ok out → Full out student.length
  | .list cfg subs, answers, student, out, hok, hne, h => by
    simp only [LTree.check] at h
    cases hok with
    | mk _ _ _ hgrp hsubs =>
      apply listCheck_full hne _ h
      intro al hal
      refine ⟨hgrp, ?_⟩
      intro k a hcond g r hg hrun
      have hsf := hsubs al hal k a hcond
      unfold subFor at hsf
      exact runAt_shape subs _ a g r hsf hg hrun
theorem STree.run_shape : ∀ (s : STree) (a : UAny) (g : GInput) (r : SubRes), SubOK s a → GOK g → s.run a g = .ok r → ShapeOf g r
  | .item t, a, g, r, hok, hg, h => by
    simp only [STree.run, itemAsSub] at h
    split at h
    · next l s =>
      cases hc : t.check l s with
      | error e => simp [hc, Except.map] at h
      | ok v => simp only [hc, Except.map, Except.ok.injEq] at h; subst h; trivial
    · simp [throw, throwThe, MonadExceptOf.throw] at h
  | .nested t, a, g, r, hok, hg, h => by
    simp only [STree.run, listAsSub] at h
    split at h
    · next ls l =>
      cases hc : t.check ls l with
      | error e => simp [hc, Except.map] at h
      | ok v =>
        simp only [hc, Except.map, Except.ok.injEq] at h; subst h
        cases hok with
        | nested _ _ hl =>
          obtain ⟨f1, f2⟩ := LTree.check_full t ls l v hl (hg l rfl) hc
          show (v.entries.filterMap id).length = l.length
          rw [length_filterMap_of_all_some id v.entries (fun e he => by simpa using f2 e he), f1]
    · simp [throw, throwThe, MonadExceptOf.throw] at h
theorem runAt_shape : ∀ (subs : List STree) (j : ℕ) (a : UAny) (g : GInput) (r : SubRes),
    (∀ s, subs[j]? = some s → SubOK s a) → GOK g → runAt subs j a g = .ok r → ShapeOf g r
  | [], j, a, g, r, _, _, h => by simp [runAt, throw, throwThe, MonadExceptOf.throw] at h
  | s :: rest, 0, a, g, r, hs, hg, h => by
    simp only [runAt] at h
    exact STree.run_shape s a g r (hs s (by simp)) hg h
  | s :: rest, j + 1, a, g, r, hs, hg, h => by
    simp only [runAt] at h
    exact runAt_shape rest j a g r (fun s' hs' => hs s' (by simpa using hs')) hg h
end

end Gr

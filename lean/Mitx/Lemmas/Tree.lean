import Mitx.Model.Tree
import Mitx.Props.C01
import Mitx.Lemmas.Grouping
import Mitx.Props.C05
/-! Induction over grader trees: every grader built from table leaves, SingleListGraders and (nested, grouped) ListGraders
returns entries with a grade in [0,1] whose `ok` is consistent with the grade (unless the author pinned `ok`). -/
namespace Gr
open C01

/-- `pin = false`: the author pinned no `ok` anywhere; then `ok` consistency is part of the contract -/
def Good (pin : Bool) (r : IRes) : Prop := WF r ∧ (pin = false → OkConsistent r)

def TabWF (tab : List TabEntry) : Prop := ∀ t ∈ tab, 0 ≤ t.credit ∧ t.credit ≤ 1

def ITree.TabsWF : ITree → Prop
  | .table tab _ => TabWF tab
  | .singlelist _ _ sub => sub.TabsWF

mutual
/-- well-formed `expect` entries: a text, or a non-empty list of item-answer lists that are well formed -/
inductive ExpWF (pin : Bool) : UExp → Prop
  | str (s : String) : ExpWF pin (.str s)
  | items (l : List (List (Answer UExp))) : l ≠ [] → (∀ a ∈ l, AnsWF pin a) → ExpWF pin (.items l)
/-- well-formed answers of an item grader: credits in [0,1] (and unpinned `ok` when `pin = false`), recursively -/
inductive AnsWF (pin : Bool) : List (Answer UExp) → Prop
  | mk (l : List (Answer UExp)) :
      (∀ a ∈ l, 0 ≤ a.am.grade ∧ a.am.grade ≤ 1 ∧ (pin = false → a.am.ok = At.gradeToOk a.am.grade)) →
      (∀ a ∈ l, ∀ e ∈ a.expect, ExpWF pin e) → AnsWF pin l
end

theorem mem_expand {ε : Type} {answers : List (Answer ε)} {p : AnsMeta × ε} (h : p ∈ expand answers) :
    ∃ a ∈ answers, p.1 = a.am ∧ p.2 ∈ a.expect := by
  unfold expand at h
  simp only [List.mem_flatMap, List.mem_map] at h
  obtain ⟨a, ha, e, he, rfl⟩ := h
  exact ⟨a, ha, rfl, he⟩

/-- `ItemGrader.check` keeps the contract of `check_response` (the chosen result is one of the computed ones; only its message may be replaced) -/
theorem itemCheck_good {ε : Type} {cr : AnsMeta → ε → String → M IRes} {w : String} {answers : List (Answer ε)} {inp : String} {out : IRes}
    {pin : Bool} (hleaf : ∀ p ∈ expand answers, ∀ r, cr p.1 p.2 inp = .ok r → Good pin r)
    (h : itemCheck cr w answers inp = .ok out) : Good pin out := by
  obtain ⟨results, chosen, hm, hcm, _, _, hout⟩ := C08.check_ok_inv cr w h
  have hf := (mapM_ok_iff _ _ _).mp hm
  obtain ⟨p, hp, hpr⟩ := forall2_mem_right hf chosen hcm
  have := hleaf p hp _ hpr
  rw [hout]
  unfold Good WF OkConsistent at *
  split <;> exact this

theorem tableCR_good {tab : List TabEntry} (ht : TabWF tab) {pin : Bool} {m : AnsMeta} (hm0 : 0 ≤ m.grade) (hm1 : m.grade ≤ 1)
    (hok : pin = false → m.ok = At.gradeToOk m.grade) {e : UExp} {inp : String} {r : IRes} (h : tableCR tab m e inp = .ok r) :
    Good pin r := by
  unfold tableCR at h
  cases e with
  | items l => simp [throw, throwThe, MonadExceptOf.throw] at h
  | str k =>
    simp only at h
    split at h
    · simp only [pure, Except.pure, Except.ok.injEq] at h; subst h
      refine ⟨⟨le_refl _, by norm_num⟩, fun _ => ?_⟩
      simp [OkConsistent, At.gradeToOk]
    · next t hfind =>
      have htm := List.mem_of_find?_eq_some hfind
      obtain ⟨c0, c1⟩ := ht t htm
      split at h
      · simp [throw, throwThe, MonadExceptOf.throw] at h
      · simp [throw, throwThe, MonadExceptOf.throw] at h
      · simp only [pure, Except.pure, Except.ok.injEq] at h; subst h
        refine ⟨⟨mul_nonneg c0 hm0, ?_⟩, fun hp => ?_⟩
        · calc t.credit * m.grade ≤ 1 * 1 := mul_le_mul c1 hm1 hm0 (by norm_num)
            _ = 1 := by norm_num
        · simp only [OkConsistent]
          split
          · next hc1 =>
            have : t.credit = 1 := by simpa using hc1
            rw [this, one_mul]; exact hok hp
          · rfl

/-- every result returned by `find_optimal_order` is the result of checking one of the inputs against one of the answers -/
theorem findOptimalOrder_mem {α β ρ : Type} {check : α → β → M ρ} {grade : ρ → ℚ} {answers : List α} {inputs : List β} {out : List ρ}
    (h : findOptimalOrder check grade answers inputs = .ok out) :
    ∀ r ∈ out, ∃ a ∈ answers, ∃ i ∈ inputs, check a i = .ok r := by
  unfold findOptimalOrder at h
  simp only [bind, Except.bind] at h
  cases hm : inputs.mapM (fun i => answers.mapM (fun a => check a i)) with
  | error e => rw [hm] at h; cases h
  | ok mat =>
    rw [hm] at h
    simp only at h
    obtain ⟨hlen, hrows⟩ := mat_shape hm
    split at h
    · simp [throw, throwThe, MonadExceptOf.throw] at h
    · next idx _ =>
      simp only [pure, Except.pure, Except.ok.injEq] at h
      subst h
      intro r hr
      simp only [List.mem_filterMap] at hr
      obtain ⟨p, _, hp⟩ := hr
      cases hrow : mat[p.1]? with
      | none => simp [hrow] at hp
      | some row =>
        simp only [hrow, Option.bind_some] at hp
        obtain ⟨hi, rfl⟩ := List.getElem?_eq_some_iff.mp hrow
        obtain ⟨hj, rfl⟩ := List.getElem?_eq_some_iff.mp hp
        have hi' : p.1 < inputs.length := by rw [← hlen]; exact hi
        obtain ⟨hl2, hc⟩ := hrows p.1 hi' hi
        have hj' : p.2 < answers.length := by rw [← hl2]; exact hj
        exact ⟨answers[p.2], List.getElem_mem hj', inputs[p.1], List.getElem_mem hi', hc p.2 hj' hj⟩

theorem mem_padTo {α : Type} {n : ℕ} {l : List α} {x : Option α} (h : x ∈ padTo n l) : x = none ∨ ∃ a ∈ l, x = some a := by
  unfold padTo at h
  simp only [List.mem_append, List.mem_map, List.mem_replicate] at h
  rcases h with ⟨a, ha, rfl⟩ | ⟨_, rfl⟩
  · exact Or.inr ⟨a, ha, rfl⟩
  · exact Or.inl rfl

theorem paddedCheck_good {α : Type} {sub : α → String → M IRes} {pin : Bool} {l : List α}
    (hsub : ∀ a ∈ l, ∀ i r, sub a i = .ok r → Good pin r) {n : ℕ} {x : Option α} {y : Option String} {r : IRes}
    (hx : x ∈ padTo n l) (h : paddedCheck sub x y = .ok r) : Good pin r := by
  have hauto : Good pin autoFail := ⟨⟨le_refl _, by norm_num [autoFail]⟩, fun _ => by simp [OkConsistent, autoFail, At.gradeToOk]⟩
  rcases mem_padTo hx with rfl | ⟨a, ha, rfl⟩
  · simp only [paddedCheck, pure, Except.pure, Except.ok.injEq] at h; subst h; exact hauto
  · cases y with
    | none => simp only [paddedCheck, pure, Except.pure, Except.ok.injEq] at h; subst h; exact hauto
    | some i => exact hsub a ha i r (by simpa [paddedCheck] using h)

/-- `SingleListGrader.check_response` keeps the contract of its subgrader -/
theorem slCheckResponse_good {α : Type} {cfg : SLCfg} {sub : α → String → M IRes} {pin : Bool} {m : AnsMeta} {items : List α}
    {inp : String} {out : IRes} (hne : items ≠ []) (hm0 : 0 ≤ m.grade) (hm1 : m.grade ≤ 1)
    (hsub : ∀ a ∈ items, ∀ i r, sub a i = .ok r → Good pin r)
    (h : slCheckResponse cfg sub m items inp = .ok out) : Good pin out := by
  obtain ⟨gl, hout, hgl⟩ := C07.sl_ok_inv h
  have hall : ∀ r ∈ gl, Good pin r := by
    by_cases hord : cfg.ordered = true
    · simp only [hord, ↓reduceIte] at hgl
      have hf := (mapM_ok_iff _ _ _).mp hgl
      intro r hr
      obtain ⟨p, hp, hpr⟩ := forall2_mem_right hf r hr
      exact paddedCheck_good hsub (List.of_mem_zip hp).1 hpr
    · have hord' : cfg.ordered = false := by simpa using hord
      simp only [hord', Bool.false_eq_true, ↓reduceIte] at hgl
      intro r hr
      obtain ⟨a, ha, i, _, hc⟩ := findOptimalOrder_mem hgl r hr
      exact paddedCheck_good hsub ha hc
  have hpos : 0 < items.length := List.length_pos_iff.mpr hne
  obtain ⟨hw, hok⟩ := processGradeList_wf cfg gl items.length m hpos (fun r hr => (hall r hr).1.2) hm0 hm1
  rw [hout]; exact ⟨hw, fun _ => hok⟩

/-- **Item grader trees** (table leaves and SingleListGraders of any nesting depth): every successful `check` returns a
    grade in [0,1], with `ok` consistent with the grade when no `ok` was pinned. -/
theorem ITree.check_good (pin : Bool) : ∀ (t : ITree), t.TabsWF → ∀ (ans : List (Answer UExp)) (inp : String) (out : IRes),
    AnsWF pin ans → t.check ans inp = .ok out → Good pin out
  | .table tab w, ht, ans, inp, out, hans, h => by
    cases hans with
    | mk _ hmeta _ =>
      apply itemCheck_good (cr := tableCR tab) _ h
      intro p hp r hr
      obtain ⟨a, ha, e1, _⟩ := mem_expand hp
      obtain ⟨g0, g1, gok⟩ := hmeta a ha
      rw [e1] at hr
      exact tableCR_good ht g0 g1 gok hr
  | .singlelist cfg w sub, ht, ans, inp, out, hans, h => by
    cases hans with
    | mk _ hmeta hexp =>
      apply itemCheck_good (cr := slCR cfg sub.check) _ h
      intro p hp r hr
      obtain ⟨a, ha, e1, e2⟩ := mem_expand hp
      obtain ⟨g0, g1, _⟩ := hmeta a ha
      have hwf := hexp a ha p.2 e2
      unfold slCR at hr
      cases hwf' : p.2 with
      | str s => rw [hwf'] at hr; simp [throw, throwThe, MonadExceptOf.throw] at hr
      | items l =>
        rw [hwf'] at hr hwf
        simp only at hr
        cases hwf with
        | items _ hne hall =>
          rw [e1] at hr
          exact slCheckResponse_good hne g0 g1 (fun a' ha' i r' hr' => ITree.check_good pin sub ht a' i r' (hall a' ha') hr') hr

/-! ### list grader trees -/

theorem groupItems_sub_flat (g : List ℕ) (s : SubRes) : ∀ x ∈ groupItems g s, x ∈ s.flat := by
  intro x hx
  unfold groupItems at hx
  split at hx
  · simpa [SubRes.flat] using hx
  · simp at hx
  · simp at hx
  · simpa [SubRes.flat] using hx

/-- every entry `ungroupify` stores is an entry of one of the subgrader results -/
theorem ungroupify_mem {gmap : Option (List (List ℕ))} {nested : List SubRes} {r : IRes}
    (h : some r ∈ ungroupify gmap nested) : ∃ s ∈ nested, r ∈ s.flat := by
  unfold ungroupify at h
  cases gmap with
  | none =>
    simp only [List.mem_flatMap] at h
    obtain ⟨s, hs, hr⟩ := h
    refine ⟨s, hs, ?_⟩
    cases s with
    | single x => simp at hr; subst hr; simp [SubRes.flat]
    | multi l => simp at hr
  | some gs =>
    simp only [List.mem_map, List.mem_range] at h
    obtain ⟨i, _, hi⟩ := h
    simp only [Option.map_eq_some_iff] at hi
    obtain ⟨w, hw, rfl⟩ := hi
    have hwm := List.mem_of_find?_eq_some hw
    simp only [List.mem_reverse, groupWrites, List.mem_flatMap] at hwm
    obtain ⟨p, hp, hwp⟩ := hwm
    exact ⟨p.2, (List.of_mem_zip hp).2, groupItems_sub_flat _ _ _ (List.of_mem_zip hwp).2⟩

/-- `perform_check`: every stored entry is an entry of a result some subgrader returned for one of the answers -/
theorem performCheck_entries {α : Type} {cfg : LCfg} {sub : ℕ → α → GInput → M SubRes} {answers : List α} {student : List String}
    {o : LOut} {P : IRes → Prop}
    (hsub : ∀ k, ∀ a ∈ answers, ∀ g r, sub k a g = .ok r → ∀ x ∈ r.flat, P x)
    (h : performCheck cfg sub answers student = .ok o) : ∀ e ∈ o.entries, ∀ r, e = some r → P r := by
  obtain ⟨_, il, ho, hil⟩ := C05.performCheck_inv h
  intro e he r hr
  subst hr
  rw [ho] at he
  obtain ⟨s, hs, hrs⟩ := ungroupify_mem he
  by_cases hord : cfg.ordered = true
  · simp only [hord, ↓reduceIte] at hil
    have hf := (mapM_ok_iff _ _ _).mp hil
    obtain ⟨p, hp, hpr⟩ := forall2_mem_right hf s hs
    have hp1 : p.1 ∈ answers.zip (groupify (if cfg.grouping.isEmpty then none else createGroupingMap cfg.grouping) student) := by
      have := List.mem_zipIdx_iff_getElem?.mp hp
      exact List.mem_of_getElem? this
    exact hsub p.2 p.1.1 (List.of_mem_zip hp1).1 p.1.2 s hpr r hrs
  · have hord' : cfg.ordered = false := by simpa using hord
    simp only [hord', Bool.false_eq_true, ↓reduceIte] at hil
    obtain ⟨a, ha, g, _, hc⟩ := findOptimalOrder_mem hil s hs
    exact hsub 0 a ha g s hc r hrs

/-- `ListGrader.check`: the reported list is one of the candidates (possibly zeroed by `partial_credit=False`) -/
theorem listCheck_entries {α : Type} {cfg : LCfg} {sub : ℕ → α → GInput → M SubRes} {answers : List (List α)} {student : List String}
    {o : LOut} {pin : Bool}
    (hsub : ∀ k, ∀ al ∈ answers, ∀ a ∈ al, ∀ g r, sub k a g = .ok r → ∀ x ∈ r.flat, Good pin x)
    (h : listCheck cfg sub answers student = .ok o) : ∀ e ∈ o.entries, ∀ r, e = some r → Good pin r := by
  unfold listCheck at h
  simp only [bind, Except.bind, pure, Except.pure] at h
  split at h
  · simp [throw, throwThe, MonadExceptOf.throw] at h
  · split at h
    · cases h
    · next results hres =>
      split at h
      · simp [throw, throwThe, MonadExceptOf.throw] at h
      · next best hbest =>
        have hbm := (C05.best_list_maximal hbest).1
        have hf := (mapM_ok_iff _ _ _).mp hres
        obtain ⟨al, hal, hpc⟩ := forall2_mem_right hf best hbm
        have hgood := performCheck_entries (P := Good pin) (fun k a ha g r hr => hsub k al hal a ha g r hr) hpc
        split at h
        · simp only [Except.ok.injEq] at h; subst h
          intro e he r hr
          simp only [List.mem_map] at he
          obtain ⟨e0, _, rfl⟩ := he
          cases e0 with
          | none => simp at hr
          | some r0 =>
            simp only [Option.map_some, Option.some.injEq] at hr; subst hr
            exact ⟨⟨le_refl _, by norm_num⟩, fun _ => by simp [OkConsistent, At.gradeToOk]⟩
        · simp only [Except.ok.injEq] at h; subst h
          exact hgood

mutual
def LTree.TabsWF : LTree → Prop
  | .list _ subs => subsTabsWF subs
def STree.TabsWF : STree → Prop
  | .item t => t.TabsWF
  | .nested t => t.TabsWF
def subsTabsWF : List STree → Prop
  | [] => True
  | s :: rest => s.TabsWF ∧ subsTabsWF rest
end

/-- well-formed answers handed to a subgrader of a ListGrader -/
inductive AnyWF (pin : Bool) : UAny → Prop
  | item (l : List (Answer UExp)) : AnsWF pin l → AnyWF pin (.item l)
  | lists (ls : List (List UAny)) : (∀ l ∈ ls, ∀ a ∈ l, AnyWF pin a) → AnyWF pin (.lists ls)

mutual
/-- **List grader trees** (ordered / unordered, grouped, nested to any depth, over item grader trees): every entry of a
    successful `check` has a grade in [0,1], with `ok` consistent with the grade when no `ok` was pinned. -/
theorem LTree.check_good (pin : Bool) : ∀ (t : LTree), t.TabsWF → ∀ (answers : List (List UAny)) (student : List String) (out : LOut),
    (∀ al ∈ answers, ∀ a ∈ al, AnyWF pin a) → t.check answers student = .ok out → ∀ e ∈ out.entries, ∀ r, e = some r → Good pin r
  | .list cfg subs, ht, answers, student, out, hans, h => by
    simp only [LTree.check] at h
    exact listCheck_entries (fun k al hal a ha g r hr => runAt_good pin subs ht _ a g r (hans al hal a ha) hr) h
theorem STree.run_good (pin : Bool) : ∀ (s : STree), s.TabsWF → ∀ (a : UAny) (g : GInput) (r : SubRes),
    AnyWF pin a → s.run a g = .ok r → ∀ x ∈ r.flat, Good pin x
  | .item t, ht, a, g, r, ha, h => by
    simp only [STree.run, itemAsSub] at h
    split at h
    · next l s =>
      cases hc : t.check l s with
      | error e => simp [hc, Except.map] at h
      | ok v =>
        simp only [hc, Except.map, Except.ok.injEq] at h; subst h
        cases ha with
        | item _ hl =>
          intro x hx
          simp only [SubRes.flat, List.mem_singleton] at hx; subst hx
          exact ITree.check_good pin t ht l s x hl hc
    · simp [throw, throwThe, MonadExceptOf.throw] at h
  | .nested t, ht, a, g, r, ha, h => by
    simp only [STree.run, listAsSub] at h
    split at h
    · next ls l =>
      cases hc : t.check ls l with
      | error e => simp [hc, Except.map] at h
      | ok v =>
        simp only [hc, Except.map, Except.ok.injEq] at h; subst h
        cases ha with
        | lists _ hl =>
          intro x hx
          simp only [SubRes.flat, List.mem_filterMap, id] at hx
          obtain ⟨e, he, rfl⟩ := hx
          exact LTree.check_good pin t ht ls l v hl hc (some x) he x rfl
    · simp [throw, throwThe, MonadExceptOf.throw] at h
theorem runAt_good (pin : Bool) : ∀ (subs : List STree), subsTabsWF subs → ∀ (k : ℕ) (a : UAny) (g : GInput) (r : SubRes),
    AnyWF pin a → runAt subs k a g = .ok r → ∀ x ∈ r.flat, Good pin x
  | [], _, k, a, g, r, _, h => by simp [runAt, throw, throwThe, MonadExceptOf.throw] at h
  | s :: rest, ht, 0, a, g, r, ha, h => by
    simp only [runAt] at h
    exact STree.run_good pin s ht.1 a g r ha h
  | s :: rest, ht, k + 1, a, g, r, ha, h => by
    simp only [runAt] at h
    exact runAt_good pin rest ht.2 k a g r ha h
end

end Gr

import Mitx.Model.Sampling
import Mathlib.Tactic.Ring
import Mathlib.Tactic.Linarith
import Mathlib.Tactic.FieldSimp
import Mathlib.Algebra.BigOperators.Group.List.Basic
/-! The executable entry-list model of `SquareMatrices.apply_symmetry` (the very function the correspondence run drives)
establishes the requested symmetry, entry by entry. -/
namespace Sp
open Tl (C)

theorem flatMap_rows_getElem? (n : ℕ) (f : ℕ → ℕ → C) : ∀ (l : List ℕ) (k j : ℕ), j < n →
    (l.flatMap (fun i => (List.range n).map (fun j => f i j)))[k * n + j]? = l[k]?.map (fun i => f i j)
  | [], k, j, _ => by simp
  | i :: rest, 0, j, hj => by
    simp only [List.flatMap_cons, Nat.zero_mul, Nat.zero_add, List.getElem?_cons_zero, Option.map_some]
    rw [List.getElem?_append_left (by simpa using hj)]
    simp [hj]
  | i :: rest, k + 1, j, hj => by
    simp only [List.flatMap_cons, List.getElem?_cons_succ]
    rw [List.getElem?_append_right (by simp; nlinarith)]
    have : (k + 1) * n + j - ((List.range n).map (fun j => f i j)).length = k * n + j := by
      simp; ring_nf; omega
    rw [this]
    exact flatMap_rows_getElem? n f rest k j hj

/-- reading an entry of a matrix built entry by entry -/
theorem entry_build (n : ℕ) (f : ℕ → ℕ → C) (i j : ℕ) (hi : i < n) (hj : j < n) : entry n (build n f) i j = f i j := by
  unfold entry build
  rw [List.getD_eq_getElem?_getD, flatMap_rows_getElem? n f (List.range n) i j hj]
  simp [hi]

theorem cadd_comm (a b : C) : cadd a b = cadd b a := by
  unfold cadd; congr 1 <;> ring

theorem symmetric_entries (n : ℕ) (a : List C) (i j : ℕ) (hi : i < n) (hj : j < n) :
    entry n (applySymmetryOnly .symmetric n a) i j = entry n (applySymmetryOnly .symmetric n a) j i := by
  simp only [applySymmetryOnly]
  rw [entry_build n _ i j hi hj, entry_build n _ j i hj hi, cadd_comm]

def cneg (a : C) : C := ⟨-a.re, -a.im⟩

theorem antisymmetric_entries (n : ℕ) (a : List C) (i j : ℕ) (hi : i < n) (hj : j < n) :
    entry n (applySymmetryOnly .antisymmetric n a) i j = cneg (entry n (applySymmetryOnly .antisymmetric n a) j i) := by
  simp only [applySymmetryOnly]
  rw [entry_build n _ i j hi hj, entry_build n _ j i hj hi]
  unfold csub cneg; congr 1 <;> ring

theorem hermitian_entries (n : ℕ) (a : List C) (i j : ℕ) (hi : i < n) (hj : j < n) :
    entry n (applySymmetryOnly .hermitian n a) i j = conj (entry n (applySymmetryOnly .hermitian n a) j i) := by
  simp only [applySymmetryOnly]
  rw [entry_build n _ i j hi hj, entry_build n _ j i hj hi]
  unfold cadd conj; congr 1 <;> simp <;> ring

theorem antihermitian_entries (n : ℕ) (a : List C) (i j : ℕ) (hi : i < n) (hj : j < n) :
    entry n (applySymmetryOnly .antihermitian n a) i j = cneg (conj (entry n (applySymmetryOnly .antihermitian n a) j i)) := by
  simp only [applySymmetryOnly]
  rw [entry_build n _ i j hi hj, entry_build n _ j i hj hi]
  unfold csub conj cneg; congr 1 <;> simp <;> ring

theorem diagonal_entries (n : ℕ) (a : List C) (i j : ℕ) (hi : i < n) (hj : j < n) (hne : i ≠ j) :
    entry n (applySymmetryOnly .diagonal n a) i j = ⟨0, 0⟩ := by
  simp only [applySymmetryOnly]
  rw [entry_build n _ i j hi hj]; simp [hne]

/-- the traceless step only touches the diagonal, so every off-diagonal relation above survives it -/
theorem traceless_offdiag (sym : Symmetry) (n : ℕ) (a : List C) (i j : ℕ) (hi : i < n) (hj : j < n) (hne : i ≠ j) :
    entry n (applySymmetry sym true n a) i j = entry n (applySymmetryOnly sym n a) i j := by
  simp only [applySymmetry, ↓reduceIte]
  rw [entry_build n _ i j hi hj]; simp [hne]

/-- and subtracts the same number from every diagonal entry -/
theorem traceless_diag (sym : Symmetry) (n : ℕ) (a : List C) (i : ℕ) (hi : i < n) :
    entry n (applySymmetry sym true n a) i i =
      csub (entry n (applySymmetryOnly sym n a) i i)
        ⟨(trace n (applySymmetryOnly sym n a)).re / n, (trace n (applySymmetryOnly sym n a)).im / n⟩ := by
  simp only [applySymmetry, ↓reduceIte]
  rw [entry_build n _ i i hi hi]; simp

theorem foldl_cadd (g : ℕ → C) (l : List ℕ) (z : C) :
    (l.foldl (fun acc i => cadd acc (g i)) z).re = z.re + (l.map (fun i => (g i).re)).sum ∧
    (l.foldl (fun acc i => cadd acc (g i)) z).im = z.im + (l.map (fun i => (g i).im)).sum := by
  induction l generalizing z with
  | nil => simp
  | cons x xs ih =>
    simp only [List.foldl_cons, List.map_cons, List.sum_cons]
    obtain ⟨h1, h2⟩ := ih (cadd z (g x))
    rw [h1, h2]; simp only [cadd]; constructor <;> ring

theorem sum_sub_const (l : List ℕ) (f : ℕ → ℚ) (c : ℚ) : (l.map (fun i => f i - c)).sum = (l.map f).sum - l.length * c := by
  induction l with
  | nil => simp
  | cons x xs ih => simp only [List.map_cons, List.sum_cons, List.length_cons, ih]; push_cast; ring

theorem map_congr_range {n : ℕ} {f g : ℕ → ℚ} (h : ∀ i, i < n → f i = g i) : (List.range n).map f = (List.range n).map g :=
  List.map_congr_left (fun i hi => h i (List.mem_range.mp hi))

/-- **Traceless**: after the traceless step the trace is zero (for every symmetry option, every dimension n > 0) -/
theorem traceless_trace_zero_list (sym : Symmetry) (n : ℕ) (hn : 0 < n) (a : List C) :
    trace n (applySymmetry sym true n a) = ⟨0, 0⟩ := by
  set w := applySymmetryOnly sym n a with hw
  have hnq : (n : ℚ) ≠ 0 := by exact_mod_cast (Nat.pos_iff_ne_zero.mp hn)
  obtain ⟨t1, t2⟩ := foldl_cadd (fun i => entry n w i i) (List.range n) ⟨0, 0⟩
  obtain ⟨r1, r2⟩ := foldl_cadd (fun i => entry n (applySymmetry sym true n a) i i) (List.range n) ⟨0, 0⟩
  have hre : (List.range n).map (fun i => (entry n (applySymmetry sym true n a) i i).re)
      = (List.range n).map (fun i => (entry n w i i).re - (trace n w).re / n) :=
    map_congr_range (fun i hi => by rw [traceless_diag sym n a i hi]; rfl)
  have him : (List.range n).map (fun i => (entry n (applySymmetry sym true n a) i i).im)
      = (List.range n).map (fun i => (entry n w i i).im - (trace n w).im / n) :=
    map_congr_range (fun i hi => by rw [traceless_diag sym n a i hi]; rfl)
  have e1 : (trace n (applySymmetry sym true n a)).re = 0 := by
    have t1' : (trace n w).re = ((List.range n).map (fun i => (entry n w i i).re)).sum := by
      unfold trace; rw [t1]; simp
    show (List.foldl (fun acc i => cadd acc (entry n (applySymmetry sym true n a) i i)) ⟨0, 0⟩ (List.range n)).re = 0
    rw [r1, hre, sum_sub_const, ← t1']
    simp only [zero_add, List.length_range]
    field_simp; ring
  have e2 : (trace n (applySymmetry sym true n a)).im = 0 := by
    have t2' : (trace n w).im = ((List.range n).map (fun i => (entry n w i i).im)).sum := by
      unfold trace; rw [t2]; simp
    show (List.foldl (fun acc i => cadd acc (entry n (applySymmetry sym true n a) i i)) ⟨0, 0⟩ (List.range n)).im = 0
    rw [r2, him, sum_sub_const, ← t2']
    simp only [zero_add, List.length_range]
    field_simp; ring
  cases h : trace n (applySymmetry sym true n a) with
  | mk re im => rw [h] at e1 e2; simp only at e1 e2; rw [e1, e2]

end Sp

import Mitx.Model.Attempt
import Mathlib.Tactic.Linarith
import Mathlib.Tactic.FieldSimp
import Mathlib.Tactic.NormNum
import Mathlib.Tactic.Positivity
import Mathlib.Algebra.Order.Floor.Ring
import Mathlib.Data.Rat.Floor
/-! Helper lemmas for C17 (rounding half-even is monotone, fixes 4-decimal values). -/
namespace At

theorem floor_eq (y : ℚ) : y.floor = ⌊y⌋ := rfl

theorem rnd_def (y : ℚ) : rnd y =
    if y - ⌊y⌋ < 1/2 then ⌊y⌋ else if y - ⌊y⌋ > 1/2 then ⌊y⌋ + 1 else (if ⌊y⌋ % 2 = 0 then ⌊y⌋ else ⌊y⌋ + 1) := by
  unfold rnd; simp only [floor_eq]; rfl

theorem rnd_ge_floor (y : ℚ) : ⌊y⌋ ≤ rnd y := by rw [rnd_def]; split_ifs <;> omega
theorem rnd_le_floor_succ (y : ℚ) : rnd y ≤ ⌊y⌋ + 1 := by rw [rnd_def]; split_ifs <;> omega

theorem rnd_mono {x y : ℚ} (h : x ≤ y) : rnd x ≤ rnd y := by
  have hfl : ⌊x⌋ ≤ ⌊y⌋ := Int.floor_mono h
  rcases lt_or_eq_of_le hfl with hlt | heq
  · have := rnd_le_floor_succ x; have := rnd_ge_floor y; omega
  · have hfr : x - ⌊x⌋ ≤ y - ⌊y⌋ := by rw [heq]; linarith
    rw [rnd_def, rnd_def, heq]
    split_ifs <;> first | omega | (exfalso; linarith)

theorem round4_mono {x y : ℚ} (h : x ≤ y) : round4 x ≤ round4 y := by
  unfold round4
  have : rnd (x * 10000) ≤ rnd (y * 10000) := rnd_mono (by linarith)
  have : ((rnd (x * 10000) : ℤ) : ℚ) ≤ (rnd (y * 10000) : ℚ) := by exact_mod_cast this
  linarith

theorem rnd_int (k : ℤ) : rnd (k : ℚ) = k := by
  rw [rnd_def]; simp

theorem round4_fix (k : ℤ) : round4 ((k : ℚ) / 10000) = (k : ℚ) / 10000 := by
  unfold round4
  have hy : (k : ℚ) / 10000 * 10000 = k := by field_simp
  rw [hy, rnd_int]

theorem round4_one : round4 1 = 1 := by simpa using round4_fix 10000
theorem round4_zero : round4 0 = 0 := by simpa using round4_fix 0

/-- every value of `round4` is a 4-decimal number, hence a fixed point -/
theorem round4_idem (x : ℚ) : round4 (round4 x) = round4 x := by
  unfold round4; exact round4_fix _

/-- the unrounded linear schedule, for attempts ≥ 1 -/
def linRaw (after steps : ℕ) (minc : ℚ) (attempt : ℤ) : ℚ :=
  if attempt - after ≤ 0 then 1 else
  if attempt - after ≥ steps then minc
  else 1 + (minc - 1) * ((attempt - after : ℤ) : ℚ) / steps

theorem rmax_ge_right (a b : ℚ) : b ≤ rmax a b := by unfold rmax; split_ifs <;> linarith
theorem rmax_le {a b c : ℚ} (ha : a ≤ c) (hb : b ≤ c) : rmax a b ≤ c := by unfold rmax; split_ifs <;> assumption
theorem rmax_mono {a a' b : ℚ} (h : a ≤ a') : rmax a b ≤ rmax a' b := by unfold rmax; split_ifs <;> linarith
theorem rmax_one {b : ℚ} (h : b ≤ 1) : rmax 1 b = 1 := by unfold rmax; split_ifs with h' <;> linarith

theorem linear_eq_max {after steps : ℕ} {minc : ℚ} (ha : 1 ≤ after) (h1 : minc ≤ 1) (a : ℤ) :
    linearCredit after steps minc a = rmax (round4 (linRaw after steps minc a)) minc := by
  unfold linearCredit linRaw
  by_cases h : a = 1
  · subst h
    have : (1 : ℤ) - (after : ℤ) ≤ 0 := by omega
    simp [this, round4_one, rmax_one h1]
  · simp only [h, if_false]
    split_ifs <;> simp [round4_one, rmax_one h1]

theorem linRaw_range {after steps : ℕ} {minc : ℚ} (hs : 1 ≤ steps) (h0 : 0 ≤ minc) (h1 : minc ≤ 1) (a : ℤ) :
    minc ≤ linRaw after steps minc a ∧ linRaw after steps minc a ≤ 1 := by
  unfold linRaw
  have hsp : (0 : ℚ) < steps := by positivity
  split_ifs with h1' h2
  · exact ⟨h1, le_refl _⟩
  · exact ⟨le_refl _, h1⟩
  · push Not at h1' h2
    have hst : (0 : ℚ) < ((a - after : ℤ) : ℚ) := by exact_mod_cast h1'
    have hst2 : ((a - after : ℤ) : ℚ) < steps := by exact_mod_cast h2
    have hfrac0 : 0 ≤ ((a - after : ℤ) : ℚ) / steps := by positivity
    have hfrac1 : ((a - after : ℤ) : ℚ) / steps ≤ 1 := by rw [div_le_one hsp]; linarith
    have e : (minc - 1) * ((a - after : ℤ) : ℚ) / steps = (minc - 1) * (((a - after : ℤ) : ℚ) / steps) := by ring
    constructor
    · rw [e]; nlinarith
    · rw [e]; nlinarith

theorem linRaw_antitone {after steps : ℕ} {minc : ℚ} (hs : 1 ≤ steps) (h0 : 0 ≤ minc) (h1 : minc ≤ 1) {a b : ℤ}
    (h : a ≤ b) : linRaw after steps minc b ≤ linRaw after steps minc a := by
  have ha := linRaw_range (after := after) hs h0 h1 a
  have hb := linRaw_range (after := after) hs h0 h1 b
  unfold linRaw at *
  have hsp : (0 : ℚ) < steps := by positivity
  split_ifs at * with h1' h2 h3 h4 h5 h6 <;> try linarith
  all_goals try (exfalso; omega)
  · have hab : ((a - after : ℤ) : ℚ) ≤ ((b - after : ℤ) : ℚ) := by exact_mod_cast (by omega : a - after ≤ b - after)
    have e1 : (minc - 1) * ((b - after : ℤ) : ℚ) / steps = (minc - 1) * (((b - after : ℤ) : ℚ) / steps) := by ring
    have e2 : (minc - 1) * ((a - after : ℤ) : ℚ) / steps = (minc - 1) * (((a - after : ℤ) : ℚ) / steps) := by ring
    rw [e1, e2]
    have : ((a - after : ℤ) : ℚ) / steps ≤ ((b - after : ℤ) : ℚ) / steps :=
      div_le_div_of_nonneg_right hab hsp.le
    nlinarith

end At

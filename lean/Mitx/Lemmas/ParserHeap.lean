import Mitx.Model.ParserHeap
/-! With `reset_storage` rebinding fresh objects, the object-level parser machine refines the value-level one: cached
expressions are never touched by later parses. -/
namespace PH
open C03 PS

structure WF (st : HSt) : Prop where
  scratch_lt : st.scratch < st.next
  cache_lt : ∀ k e, (k, e) ∈ st.cache → e.2 < st.next ∧ e.2 ≠ st.scratch

theorem wf_init : WF init := ⟨by decide, by intro k e h; simp [init] at h⟩

theorem hget_hset_same (h : List (Nat × Sc)) (i : Nat) (v : Sc) : hget (hset h i v) i = v := by
  simp [hget, hset, List.lookup]
theorem hget_hset_ne (h : List (Nat × Sc)) {i j : Nat} (v : Sc) (hne : j ≠ i) : hget (hset h i v) j = hget h j := by
  have : (j == i) = false := by simpa using hne
  simp [hget, hset, List.lookup, this]

theorem lookup_map_snd {α β : Type} (f : α → β) (l : List (String × α)) (k : String) :
    (l.map (fun p => (p.1, f p.2))).lookup k = (l.lookup k).map f := by
  induction l with
  | nil => rfl
  | cons p ps ih =>
    obtain ⟨a, b⟩ := p
    simp only [List.map_cons, List.lookup_cons]
    cases h : (k == a) <;> simp [ih]

theorem mem_of_lookup {α : Type} {l : List (String × α)} {k : String} {v : α} (h : l.lookup k = some v) : (k, v) ∈ l := by
  induction l with
  | nil => simp at h
  | cons p ps ih =>
    obtain ⟨a, b⟩ := p
    simp only [List.lookup_cons] at h
    cases hk : (k == a) with
    | true => simp only [hk] at h; have : k = a := by simpa using hk
              subst this; simp at h; subst h; simp
    | false => simp only [hk] at h; exact List.mem_cons_of_mem _ (ih h)

theorem rawParse_rebind_eq (st : HSt) (key : String) :
    rawParse .rebind st key =
      ({ st with heap := hset (hset st.heap st.scratch (runOn (hget st.heap st.scratch) key).2) st.next [],
                 next := st.next + 1, scratch := st.next },
       (runOn (hget st.heap st.scratch) key).1.map (fun t => (t, st.scratch))) := rfl

theorem ps_rawParse_eq (st : PS.St) (key : String) :
    PS.rawParse st key = ({ st with scratch := [] },
      (runOn st.scratch key).1.map (fun t => (t, (runOn st.scratch key).2))) := rfl

/-- one `parse` call: the object machine (rebinding reset) and the value machine stay in step -/
theorem parse_refines {st : HSt} (hw : WF st) (s : String) :
    WF (parse .rebind st s).1 ∧ abs (parse .rebind st s).1 = (PS.parse (abs st) s).1 ∧
      absOut (parse .rebind st s).1 (parse .rebind st s).2 = (PS.parse (abs st) s).2 := by
  unfold parse PS.parse
  have hl : (abs st).cache.lookup (stripSpaces s) = (st.cache.lookup (stripSpaces s)).map (readExpr st) := by
    simp only [abs]; exact lookup_map_snd (readExpr st) st.cache _
  cases hc : st.cache.lookup (stripSpaces s) with
  | some e => simp only [hl, hc, Option.map_some]; exact ⟨hw, trivial, rfl⟩
  | none =>
    simp only [hl, hc, Option.map_none]
    rw [rawParse_rebind_eq, ps_rawParse_eq]
    have hsc : (abs st).scratch = hget st.heap st.scratch := rfl
    rw [hsc]
    generalize runOn (hget st.heap st.scratch) (stripSpaces s) = run
    obtain ⟨ot, sc⟩ := run
    have hne : st.scratch ≠ st.next := Nat.ne_of_lt hw.scratch_lt
    -- old cache entries read the same in the new heap
    have hold : ∀ p ∈ st.cache,
        hget (hset (hset st.heap st.scratch sc) st.next []) p.2.2 = hget st.heap p.2.2 := by
      intro p hp
      obtain ⟨h1, h2⟩ := hw.cache_lt p.1 p.2 hp
      rw [hget_hset_ne _ _ (Nat.ne_of_lt h1), hget_hset_ne _ _ h2]
    have hcache : (st.cache.map (fun p => (p.1, readExpr
          { st with heap := hset (hset st.heap st.scratch sc) st.next [], next := st.next + 1, scratch := st.next } p.2)))
        = st.cache.map (fun p => (p.1, readExpr st p.2)) := by
      apply List.map_congr_left
      intro p hp
      simp only [readExpr, hold p hp]
    cases ot with
    | none =>
      simp only [Option.map_none]
      refine ⟨⟨by simp, ?_⟩, ?_, rfl⟩
      · intro k e he
        obtain ⟨h1, h2⟩ := hw.cache_lt k e he
        exact ⟨by simp; omega, by simp; omega⟩
      · simp only [abs, hget_hset_same] at hcache ⊢
        rw [hcache]
    | some t =>
      simp only [Option.map_some]
      have hread : hget (hset (hset st.heap st.scratch sc) st.next []) st.scratch = sc := by
        rw [hget_hset_ne _ _ hne, hget_hset_same]
      refine ⟨⟨by simp, ?_⟩, ?_, ?_⟩
      · intro k e he
        simp only [List.mem_cons, Prod.mk.injEq] at he
        rcases he with ⟨_, rfl⟩ | he
        · exact ⟨by simp; have := hw.scratch_lt; omega, by simpa using hne⟩
        · obtain ⟨h1, h2⟩ := hw.cache_lt k e he
          exact ⟨by simp; omega, by simp; omega⟩
      · simp only [abs, hget_hset_same, List.map_cons, readExpr, hread] at hcache ⊢
        rw [hcache]
      · simp only [absOut, readExpr, hread]

theorem history_refines {st : HSt} (hw : WF st) (h : List String) :
    WF (runHistory .rebind st h) ∧ abs (runHistory .rebind st h) = PS.runHistory (abs st) h := by
  induction h generalizing st with
  | nil => exact ⟨hw, rfl⟩
  | cons s h ih =>
    obtain ⟨w1, a1, _⟩ := parse_refines hw s
    obtain ⟨w2, a2⟩ := ih w1
    exact ⟨w2, by simp only [runHistory, PS.runHistory, List.foldl_cons] at a2 ⊢; rw [a2, a1]⟩

/-- a cached expression keeps reading the same names, whatever is parsed afterwards -/
theorem cached_stable {st : HSt} (hw : WF st) (k : String) (e : T × Nat) (he : (k, e) ∈ st.cache) (s : String) :
    readExpr (parse .rebind st s).1 e = readExpr st e := by
  unfold parse
  cases hc : st.cache.lookup (stripSpaces s) with
  | some e' => simp only [hc]
  | none =>
    simp only [hc]
    rw [rawParse_rebind_eq]
    obtain ⟨h1, h2⟩ := hw.cache_lt k e he
    cases (runOn (hget st.heap st.scratch) (stripSpaces s)).1 <;>
      simp only [Option.map_none, Option.map_some, readExpr] <;>
      rw [hget_hset_ne _ _ (Nat.ne_of_lt h1), hget_hset_ne _ _ h2]

end PH

import Mitx.Parser.Usage
import Mitx.Parser.Sem
/-! α-renaming: evaluating a tree whose variables have been renamed, in an algebra whose variable lookup is renamed
accordingly, gives the same value. Used for "the summation variable may be renamed freely" (C19). Core Lean only. -/
namespace C03

mutual
def mapVars (ρ : String → String) : T → T
  | .num txt suf => .num txt suf
  | .var s => .var (ρ s)
  | .call f args => .call f (mapVarsL ρ args)
  | .arr xs => .arr (mapVarsL ρ xs)
  | .paren t => .paren (mapVars ρ t)
  | .power b rest => .power (mapVars ρ b) (mapVarsP ρ rest)
  | .neg t => .neg (mapVars ρ t)
  | .par a rest => .par (mapVars ρ a) (mapVarsL ρ rest)
  | .prod a rest => .prod (mapVars ρ a) (mapVarsP ρ rest)
  | .sum l a rest => .sum l (mapVars ρ a) (mapVarsP ρ rest)
def mapVarsL (ρ : String → String) : List T → List T
  | [] => []
  | t :: ts => mapVars ρ t :: mapVarsL ρ ts
def mapVarsP (ρ : String → String) : List (Bool × T) → List (Bool × T)
  | [] => []
  | (b, t) :: ts => (b, mapVars ρ t) :: mapVarsP ρ ts
end

variable {V : Type}

/-- the algebra `A` with another variable lookup -/
def Alg.withVar (A : Alg V) (g : String → V) : Alg V := { A with var := g }

theorem expo_withVar (A : Alg V) (g : String → V) : ∀ l : List (Bool × V), expo (A.withVar g) l = expo A l
  | [] => rfl
  | (s, e) :: rest => by simp only [expo, expo_withVar A g rest]; rfl

mutual
theorem evalT_mapVars (A : Alg V) (g : String → V) (ρ : String → String) :
    ∀ (t : T), (∀ s, (Kind.var, s) ∈ names t → g (ρ s) = A.var s) → evalT (A.withVar g) (mapVars ρ t) = evalT A t
  | .num txt suf, _ => by simp [mapVars, evalT, Alg.withVar]
  | .var s, h => by simp [mapVars, evalT, Alg.withVar]; exact h s (by simp [names])
  | .call f args, h => by
    simp only [mapVars, evalT, Alg.withVar]
    rw [show evalL { A with var := g } (mapVarsL ρ args) = evalL A args from
      evalL_mapVars A g ρ args (fun s hs => h s (by simp [names, hs]))]
  | .arr xs, h => by
    simp only [mapVars, evalT, Alg.withVar]
    rw [show evalL { A with var := g } (mapVarsL ρ xs) = evalL A xs from
      evalL_mapVars A g ρ xs (fun s hs => h s (by simp [names, hs]))]
  | .paren t, h => by
    simp only [mapVars, evalT]
    exact evalT_mapVars A g ρ t (fun s hs => h s (by simp [names, hs]))
  | .power b rest, h => by
    simp only [mapVars, evalT]
    rw [evalT_mapVars A g ρ b (fun s hs => h s (by simp [names, hs])),
        evalP_mapVars A g ρ rest (fun s hs => h s (by simp [names, hs])), expo_withVar]
    rfl
  | .neg t, h => by
    simp only [mapVars, evalT]
    rw [evalT_mapVars A g ρ t (fun s hs => h s (by simp [names, hs]))]; rfl
  | .par a rest, h => by
    simp only [mapVars, evalT]
    rw [evalT_mapVars A g ρ a (fun s hs => h s (by simp [names, hs])),
        evalL_mapVars A g ρ rest (fun s hs => h s (by simp [names, hs]))]
    rfl
  | .prod a rest, h => by
    simp only [mapVars, evalT]
    rw [evalT_mapVars A g ρ a (fun s hs => h s (by simp [names, hs])),
        evalP_mapVars A g ρ rest (fun s hs => h s (by simp [names, hs]))]
    rfl
  | .sum l a rest, h => by
    simp only [mapVars, evalT]
    rw [evalT_mapVars A g ρ a (fun s hs => h s (by simp [names, hs])),
        evalP_mapVars A g ρ rest (fun s hs => h s (by simp [names, hs]))]
    rfl
theorem evalL_mapVars (A : Alg V) (g : String → V) (ρ : String → String) :
    ∀ (ts : List T), (∀ s, (Kind.var, s) ∈ namesL ts → g (ρ s) = A.var s) → evalL (A.withVar g) (mapVarsL ρ ts) = evalL A ts
  | [], _ => by simp [mapVarsL, evalL]
  | t :: ts, h => by
    simp only [mapVarsL, evalL]
    rw [evalT_mapVars A g ρ t (fun s hs => h s (by simp [namesL, hs])),
        evalL_mapVars A g ρ ts (fun s hs => h s (by simp [namesL, hs]))]
theorem evalP_mapVars (A : Alg V) (g : String → V) (ρ : String → String) :
    ∀ (ps : List (Bool × T)), (∀ s, (Kind.var, s) ∈ namesP ps → g (ρ s) = A.var s) → evalP (A.withVar g) (mapVarsP ρ ps) = evalP A ps
  | [], _ => by simp [mapVarsP, evalP]
  | (b, t) :: ps, h => by
    simp only [mapVarsP, evalP]
    rw [evalT_mapVars A g ρ t (fun s hs => h s (by simp [namesP, hs])),
        evalP_mapVars A g ρ ps (fun s hs => h s (by simp [namesP, hs]))]
end

/-- binding one variable (the summation index) on top of a scope -/
def Alg.bind (A : Alg V) (v : String) (x : V) : Alg V := A.withVar (fun s => if s = v then x else A.var s)

/-- renaming exactly one variable -/
def rename1 (v v' : String) : String → String := fun s => if s = v then v' else s

/-- **α-renaming of a bound variable.** If `v'` does not occur as a variable in `t`, evaluating `t` with `v` bound to `x`
    equals evaluating `t[v := v']` with `v'` bound to `x` — in any operator algebra (floats and arrays included). -/
theorem evalT_rename_bound (A : Alg V) (v v' : String) (x : V) (t : T) (hfresh : (Kind.var, v') ∉ names t) :
    evalT (A.bind v' x) (mapVars (rename1 v v') t) = evalT (A.bind v x) t := by
  have key := evalT_mapVars (A.bind v x) (fun s => if s = v' then x else A.var s) (rename1 v v') t (by
    intro s hs
    by_cases hsv : s = v
    · subst hsv; simp [rename1, Alg.bind, Alg.withVar]
    · have hne : s ≠ v' := by intro e; subst e; exact hfresh hs
      simp [rename1, hsv, hne, Alg.bind, Alg.withVar])
  simpa [Alg.bind, Alg.withVar] using key

end C03

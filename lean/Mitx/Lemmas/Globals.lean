import Mitx.Model.Globals
namespace Gl

theorem withNP_restores {α : Type} (v : Bool) (body : Bool → Bool × Beh α) (flag : Bool) :
    (withNP v body flag).1 = defaultNP := rfl

theorem runCalls_from_default {α : Type} (calls : List (MCall α)) : runCalls defaultNP calls = defaultNP := by
  induction calls with
  | nil => rfl
  | cons c cs ih => simpa [runCalls, withNP] using ih

mutual
theorem coerce_bounds (n : Nat) : ∀ v : PV, n ≤ (coerce n v).1 ∧ ∀ i ∈ mutIds (coerce n v).2, n ≤ i ∧ i < (coerce n v).1
  | .atom s => by simp [coerce, mutIds]
  | .opaque j => by simp [coerce, mutIds]
  | .list j items => by
    have := coerceL_bounds (n + 1) items
    simp only [coerce, mutIds, List.mem_cons]
    refine ⟨by omega, ?_⟩
    rintro i (rfl | hi)
    · omega
    · have := this.2 i hi; omega
  | .dict j items => by
    have := coerceD_bounds (n + 1) items
    simp only [coerce, mutIds, List.mem_cons]
    refine ⟨by omega, ?_⟩
    rintro i (rfl | hi)
    · omega
    · have := this.2 i hi; omega
  | .tuple items => by
    have := coerceL_bounds n items
    simp only [coerce, mutIds]
    exact this
theorem coerceL_bounds (n : Nat) : ∀ l : List PV, n ≤ (coerceL n l).1 ∧ ∀ i ∈ mutIdsL (coerceL n l).2, n ≤ i ∧ i < (coerceL n l).1
  | [] => by simp [coerceL, mutIdsL]
  | x :: xs => by
    have a := coerce_bounds n x
    have b := coerceL_bounds (coerce n x).1 xs
    simp only [coerceL, mutIdsL, List.mem_append]
    refine ⟨by omega, ?_⟩
    rintro i (hi | hi)
    · have := a.2 i hi; omega
    · have := b.2 i hi; omega
theorem coerceD_bounds (n : Nat) : ∀ l : List (String × PV), n ≤ (coerceD n l).1 ∧ ∀ i ∈ mutIdsD (coerceD n l).2, n ≤ i ∧ i < (coerceD n l).1
  | [] => by simp [coerceD, mutIdsD]
  | (k, x) :: xs => by
    have a := coerce_bounds n x
    have b := coerceD_bounds (coerce n x).1 xs
    simp only [coerceD, mutIdsD, List.mem_append]
    refine ⟨by omega, ?_⟩
    rintro i (hi | hi)
    · have := a.2 i hi; omega
    · have := b.2 i hi; omega
end

mutual
theorem coerce_shape (n : Nat) : ∀ v : PV, shape (coerce n v).2 = shape v
  | .atom s => by simp [coerce, shape]
  | .opaque j => by simp [coerce, shape]
  | .list j items => by simp only [coerce, shape]; rw [coerceL_shape (n + 1) items]
  | .dict j items => by simp only [coerce, shape]; rw [coerceD_shape (n + 1) items]
  | .tuple items => by simp only [coerce, shape]; rw [coerceL_shape n items]
theorem coerceL_shape (n : Nat) : ∀ l : List PV, shapeL (coerceL n l).2 = shapeL l
  | [] => by simp [coerceL, shapeL]
  | x :: xs => by simp only [coerceL, shapeL]; rw [coerce_shape n x, coerceL_shape _ xs]
theorem coerceD_shape (n : Nat) : ∀ l : List (String × PV), shapeD (coerceD n l).2 = shapeD l
  | [] => by simp [coerceD, shapeD]
  | (k, x) :: xs => by simp only [coerceD, shapeD]; rw [coerce_shape n x, coerceD_shape _ xs]
end

end Gl

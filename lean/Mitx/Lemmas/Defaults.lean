import Mitx.Model.Defaults
/-! Lemmas about the registered-defaults model: `update` is "right-biased union", the heap is only extended. -/
namespace Rd

theorem lookup_set (d : Dict) (k v k' : String) : lookup (set d k v) k' = if k' = k then some v else lookup d k' := by
  unfold set
  split
  · rename_i hany
    induction d with
    | nil => simp at hany
    | cons kv rest ih =>
      simp only [List.map_cons, lookup, List.find?_cons]
      by_cases hk : kv.1 = k
      · subst hk
        by_cases hk' : k' = kv.1
        · subst hk'; simp
        · have : (kv.1 == k') = false := by simp; exact fun h => hk' h.symm
          simp only [beq_self_eq_true, ↓reduceIte, this, hk']
          -- below the first occurrence the map does not change lookups of other keys
          have hrest : ∀ (l : Dict), (List.find? (fun kv' => kv'.1 == k') (l.map (fun kv' => if kv'.1 == kv.1 then (kv.1, v) else kv'))).map (·.2)
              = (List.find? (fun kv' => kv'.1 == k') l).map (·.2) := by
            intro l
            induction l with
            | nil => rfl
            | cons c cs ihc =>
              simp only [List.map_cons, List.find?_cons]
              by_cases hc : c.1 = kv.1
              · have h1 : (c.1 == kv.1) = true := by simp [hc]
                have h2 : (kv.1 == k') = false := this
                have h3 : (c.1 == k') = false := by rw [hc]; exact h2
                simp only [h1, ↓reduceIte, h2, h3]; exact ihc
              · have h1 : (c.1 == kv.1) = false := by simp [hc]
                simp only [h1]
                by_cases hck : c.1 = k'
                · simp [hck]
                · have : (c.1 == k') = false := by simp [hck]
                  simp only [Bool.false_eq_true, ↓reduceIte, this]; exact ihc
          exact hrest rest
      · have hne : (kv.1 == k) = false := by simp [hk]
        have hany' : rest.any (fun kv => kv.1 == k) = true := by simpa [List.any_cons, hne] using hany
        have ih' := ih hany'
        simp only [hne, Bool.false_eq_true, ↓reduceIte]
        by_cases hk' : kv.1 = k'
        · have : k' ≠ k := by rw [← hk']; exact hk
          simp [hk', this]
        · have : (kv.1 == k') = false := by simp [hk']
          simp only [this]
          simpa [lookup] using ih'
  · rename_i hany
    simp only [lookup, List.find?_append]
    by_cases hk' : k' = k
    · subst hk'
      have : List.find? (fun kv => kv.1 == k') d = none := by
        rw [List.find?_eq_none]; intro x hx hxk
        exact hany (List.any_eq_true.mpr ⟨x, hx, hxk⟩)
      simp [this]
    · have : (k == k') = false := by simp; exact fun h => hk' h.symm
      cases hf : List.find? (fun kv => kv.1 == k') d <;> simp [hf, this, hk']

theorem lookup_update (d u : Dict) (k : String) : lookup (update d u) k = ((lookup u.reverse k).orElse fun _ => lookup d k) := by
  unfold update
  induction u generalizing d with
  | nil => simp [lookup]
  | cons kv rest ih =>
    simp only [List.foldl_cons, List.reverse_cons]
    rw [ih]
    simp only [lookup, List.find?_append]
    cases hr : List.find? (fun kv => kv.1 == k) rest.reverse with
    | some x => simp [hr]
    | none =>
      simp only [hr, Option.none_or, Option.map_none, Option.orElse_none]
      have := lookup_set d kv.1 kv.2 k
      simp only [lookup] at this
      rw [this]
      by_cases hk : k = kv.1
      · subst hk; simp
      · have : (kv.1 == k) = false := by simp; exact fun h => hk h.symm
        simp [hk, this]

end Rd

namespace Rd

/-- Python dictionaries have one entry per key -/
def KeysNodup (d : Dict) : Prop := d.Pairwise (fun a b => a.1 ≠ b.1)

theorem lookup_append_of_nodup (d : Dict) (kv : String × String) (k : String) (h : KeysNodup (d ++ [kv])) :
    lookup (kv :: d) k = lookup (d ++ [kv]) k := by
  simp only [lookup, List.find?_cons, List.find?_append]
  by_cases hk : kv.1 = k
  · have hnone : List.find? (fun c => c.1 == k) d = none := by
      rw [List.find?_eq_none]; intro x hx hxk
      have := (List.pairwise_append.mp h).2.2 x hx kv (by simp)
      simp at hxk; exact this (hxk.trans hk.symm)
    simp [hk, hnone]
  · have : (kv.1 == k) = false := by simp [hk]
    cases hf : List.find? (fun c => c.1 == k) d <;> simp [this]

theorem lookup_reverse_of_nodup (d : Dict) (k : String) (h : KeysNodup d) : lookup d.reverse k = lookup d k := by
  induction d with
  | nil => rfl
  | cons kv rest ih =>
    have hrest : KeysNodup rest := (List.pairwise_cons.mp h).2
    rw [List.reverse_cons]
    have hnd : KeysNodup (rest.reverse ++ [kv]) := by
      unfold KeysNodup
      rw [← List.reverse_cons, List.pairwise_reverse]
      exact h.imp (fun hab => Ne.symm hab)
    rw [← lookup_append_of_nodup rest.reverse kv k hnd]
    simp only [lookup, List.find?_cons] at ih ⊢
    by_cases hk : kv.1 = k
    · simp [hk]
    · have : (kv.1 == k) = false := by simp [hk]
      simp only [this]; exact ih hrest

/-- all identities in use are below the allocation pointer -/
def Heap.WF (h : Heap) : Prop := ∀ c ∈ h.cells, c.1 < h.next

theorem get_alloc_old (h : Heap) (d : Dict) (i : Nat) (hi : i ≠ h.next) : (h.alloc d).1.get i = h.get i := by
  unfold Heap.alloc Heap.get
  simp only [List.find?_append]
  cases hf : List.find? (fun c => c.1 == i) h.cells with
  | some x => simp
  | none =>
    have : (h.next == i) = false := by simp; exact fun e => hi e.symm
    simp [List.find?_cons, this]

theorem get_alloc_new (h : Heap) (hw : h.WF) (d : Dict) : (h.alloc d).1.get h.next = d := by
  unfold Heap.alloc Heap.get
  simp only [List.find?_append]
  have : List.find? (fun c => c.1 == h.next) h.cells = none := by
    rw [List.find?_eq_none]; intro x hx hxe
    have := hw x hx
    simp at hxe; omega
  simp [this, List.find?_cons]

theorem lookup_baseOf (h : Heap) (chain : List (Option Nat)) (k : String)
    (hnd : ∀ i, some i ∈ chain → KeysNodup (h.get i)) :
    lookup (baseOf h chain) k = chain.findSome? (classLookup h k) := by
  induction chain with
  | nil => rfl
  | cons e rest ih =>
    have ih' := ih (fun i hi => hnd i (by simp [hi]))
    unfold baseOf at ih' ⊢
    rw [List.reverse_cons, List.foldl_append]
    simp only [List.foldl_cons, List.foldl_nil, List.findSome?_cons]
    cases e with
    | none => simpa [classLookup, classStep] using ih'
    | some i =>
      simp only [classLookup, classStep]
      rw [lookup_update, lookup_reverse_of_nodup _ _ (hnd i (by simp)), ih']
      cases lookup (h.get i) k <;> simp

end Rd

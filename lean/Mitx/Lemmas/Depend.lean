import Mitx.Model.Depend
/-! Helper lemmas for C13 (dependency resolution). Core Lean only. -/
namespace Dp
variable {V : Type}

theorem get_set (d : Dict V) (k : String) (v : V) (x : String) :
    (d.set k v).get x = if x = k then some v else d.get x := by
  induction d with
  | nil => simp [Dict.set, Dict.get, List.lookup]; split <;> simp_all
  | cons p r ih =>
    obtain ⟨a, b⟩ := p
    simp only [Dict.set]
    split
    · rename_i h; subst h
      simp only [Dict.get, List.lookup_cons]
      by_cases hx : x = a
      · simp [hx]
      · have : (x == a) = false := by simpa using hx
        simp [this, hx]
    · rename_i h
      simp only [Dict.get, List.lookup_cons] at ih ⊢
      by_cases hx : x = a
      · subst hx
        simp [h]
      · have : (x == a) = false := by simpa using hx
        simp [this, ih]

theorem get_set_self (d : Dict V) (k : String) (v : V) : (d.set k v).get k = some v := by
  simp [get_set]

theorem get_set_ne (d : Dict V) {k x : String} (v : V) (h : x ≠ k) : (d.set k v).get x = d.get x := by
  simp [get_set, h]

theorem sweep_length (ds : List (Dep V)) (env : Dict V) : (sweep ds env).2.length ≤ ds.length := by
  induction ds generalizing env with
  | nil => simp [sweep]
  | cons d ds ih =>
    simp only [sweep]; split
    · have := ih (env.set d.name (d.eval env)); simp; omega
    · have := ih env; simp; omega

/-- the names still to be defined are undefined so far and pairwise distinct (dict keys) -/
def Fresh (ds : List (Dep V)) (env : Dict V) : Prop :=
  (∀ d ∈ ds, env.get d.name = none) ∧ (ds.map (·.name)).Nodup

def Extends (env env' : Dict V) : Prop := ∀ x v, env.get x = some v → env'.get x = some v

theorem Extends.refl (env : Dict V) : Extends env env := fun _ _ h => h
theorem Extends.trans {a b c : Dict V} (h1 : Extends a b) (h2 : Extends b c) : Extends a c :=
  fun x v h => h2 x v (h1 x v h)

theorem extends_set {env : Dict V} {k : String} {v : V} (h : env.get k = none) : Extends env (env.set k v) := by
  intro x w hx
  by_cases hk : x = k
  · subst hk; rw [h] at hx; cases hx
  · rw [get_set_ne _ _ hk]; exact hx

/-- a dependent's evaluator looks only at its declared dependencies (`depends` = the variables its formula uses) -/
def Local (d : Dep V) : Prop := ∀ e1 e2 : Dict V, (∀ x ∈ d.deps, e1.get x = e2.get x) → d.eval e1 = d.eval e2

/-- `env'` satisfies the defining equation of every dependent in `ds` -/
def Solves (ds : List (Dep V)) (env' : Dict V) : Prop := ∀ d ∈ ds, env'.get d.name = some (d.eval env')

theorem ready_spec {env : Dict V} {d : Dep V} (h : ready env d = true) : ∀ x ∈ d.deps, ∃ v, env.get x = some v := by
  intro x hx
  simp only [ready, List.all_eq_true, Dict.has] at h
  exact Option.isSome_iff_exists.mp (h x hx)

theorem ready_false {env : Dict V} {d : Dep V} (h : ready env d = false) : ∃ x ∈ d.deps, env.get x = none := by
  simp only [ready, Dict.has] at h
  have h2 := List.all_eq_false.mp h
  obtain ⟨x, hx, hn⟩ := h2
  refine ⟨x, hx, ?_⟩
  cases hv : env.get x with
  | none => rfl
  | some v => simp [hv] at hn

theorem sweep_spec (hloc : ∀ d : Dep V, Local d) : ∀ (ds : List (Dep V)) (env : Dict V), Fresh ds env →
    Extends env (sweep ds env).1 ∧
    Fresh (sweep ds env).2 (sweep ds env).1 ∧
    (∀ d ∈ (sweep ds env).2, d ∈ ds) ∧
    (∀ d ∈ ds, d ∉ (sweep ds env).2 →
      ∃ e, Extends e (sweep ds env).1 ∧ (∀ x ∈ d.deps, ∃ v, e.get x = some v) ∧ (sweep ds env).1.get d.name = some (d.eval e)) ∧
    (∀ x, (sweep ds env).1.get x ≠ none → env.get x ≠ none ∨ ∃ d ∈ ds, d.name = x ∧ d ∉ (sweep ds env).2) := by
  intro ds
  induction ds with
  | nil => intro env _; simp [sweep, Extends.refl, Fresh]
  | cons d ds ih =>
    intro env hf
    obtain ⟨hfn, hnd⟩ := hf
    have hnd' : d.name ∉ ds.map (·.name) ∧ (ds.map (·.name)).Nodup := List.nodup_cons.mp hnd
    simp only [sweep]
    split
    · rename_i hr
      have hdn : env.get d.name = none := hfn d (by simp)
      have hfresh' : Fresh ds (env.set d.name (d.eval env)) := by
        refine ⟨?_, hnd'.2⟩
        intro d' hd'
        have hne : d'.name ≠ d.name := by
          intro e; apply hnd'.1; rw [← e]; exact List.mem_map.mpr ⟨d', hd', rfl⟩
        rw [get_set_ne _ _ hne]; exact hfn d' (by simp [hd'])
      obtain ⟨h1, h2, h3, h4, h5⟩ := ih _ hfresh'
      refine ⟨(extends_set hdn).trans h1, h2, fun x hx => by simp [h3 x hx], ?_, ?_⟩
      · intro d' hd' hnot
        rcases List.mem_cons.mp hd' with rfl | hd'
        · exact ⟨env, (extends_set hdn).trans h1, ready_spec hr, h1 _ _ (get_set_self _ _ _)⟩
        · exact h4 d' hd' hnot
      · intro x hx
        rcases h5 x hx with h | ⟨d', hd', hn, hnot⟩
        · by_cases hxd : x = d.name
          · right
            refine ⟨d, by simp, hxd.symm, ?_⟩
            intro hmem
            have := h2.1 d hmem
            have hd := h1 d.name (d.eval env) (get_set_self _ _ _)
            rw [hd] at this; cases this
          · left; rwa [get_set_ne _ _ hxd] at h
        · right; exact ⟨d', by simp [hd'], hn, hnot⟩
    · rename_i hr
      have hfresh' : Fresh ds env := ⟨fun d' hd' => hfn d' (by simp [hd']), hnd'.2⟩
      obtain ⟨h1, h2, h3, h4, h5⟩ := ih env hfresh'
      refine ⟨h1, ?_, ?_, ?_, ?_⟩
      · refine ⟨?_, ?_⟩
        · intro d' hd'
          rcases List.mem_cons.mp hd' with rfl | hd'
          · cases hval : (sweep ds env).1.get d'.name with
            | none => rfl
            | some v =>
              exfalso
              rcases h5 d'.name (by simp [hval]) with h | ⟨d'', hd'', hn, _⟩
              · exact h (hfn d' (by simp))
              · apply hnd'.1; rw [← hn]; exact List.mem_map.mpr ⟨d'', hd'', rfl⟩
          · exact h2.1 d' hd'
        · simp only [List.map_cons, List.nodup_cons]
          refine ⟨?_, h2.2⟩
          intro hmem
          obtain ⟨d'', hd'', hn⟩ := List.mem_map.mp hmem
          apply hnd'.1; rw [← hn]; exact List.mem_map.mpr ⟨d'', h3 d'' hd'', rfl⟩
      · intro x hx
        rcases List.mem_cons.mp hx with rfl | hx
        · simp
        · simp [h3 x hx]
      · intro d' hd' hnot
        rcases List.mem_cons.mp hd' with rfl | hd'
        · exact (hnot (by simp)).elim
        · exact h4 d' hd' (fun hm => hnot (by simp [hm]))
      · intro x hx
        rcases h5 x hx with h | ⟨d', hd', hn, hnot⟩
        · exact Or.inl h
        · right
          refine ⟨d', by simp [hd'], hn, ?_⟩
          intro hm
          rcases List.mem_cons.mp hm with rfl | hm
          · apply hnd'.1; exact List.mem_map.mpr ⟨d', hd', rfl⟩
          · exact hnot hm

theorem sweep_noprogress : ∀ (ds : List (Dep V)) (env : Dict V), (sweep ds env).2.length = ds.length →
    (sweep ds env).1 = env ∧ (sweep ds env).2 = ds ∧ ∀ d ∈ ds, ready env d = false := by
  intro ds
  induction ds with
  | nil => intro env _; simp [sweep]
  | cons d ds ih =>
    intro env h
    simp only [sweep] at h ⊢
    split at h
    · have := sweep_length ds (env.set d.name (d.eval env)); simp at h; omega
    · rename_i hr
      simp only [List.length_cons, Nat.add_right_cancel_iff] at h
      obtain ⟨h1, h2, h3⟩ := ih env h
      simp only [hr]
      refine ⟨h1, by simp [h2], ?_⟩
      intro d' hd'
      rcases List.mem_cons.mp hd' with rfl | hd'
      · simpa using hr
      · exact h3 d' hd'

/-- whatever solution `e2` of the equations extends the current sample, one sweep stays below it -/
theorem sweep_below (hloc : ∀ d : Dep V, Local d) (e2 : Dict V) : ∀ (ds : List (Dep V)) (env : Dict V),
    Extends env e2 → Solves ds e2 → Extends (sweep ds env).1 e2 := by
  intro ds
  induction ds with
  | nil => intro env h _; simpa [sweep] using h
  | cons d ds ih =>
    intro env hext hs
    simp only [sweep]
    split
    · rename_i hr
      apply ih
      · intro x v hx
        by_cases hk : x = d.name
        · subst hk
          rw [get_set_self] at hx
          cases hx
          rw [hs d (by simp)]
          congr 1
          apply hloc d
          intro y hy
          obtain ⟨w, hw⟩ := ready_spec hr y hy
          rw [hw, hext _ _ hw]
        · rw [get_set_ne _ _ hk] at hx; exact hext _ _ hx
      · exact fun d' hd' => hs d' (by simp [hd'])
    · exact ih env hext (fun d' hd' => hs d' (by simp [hd']))

end Dp

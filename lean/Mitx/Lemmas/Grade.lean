import Mitx.Model.Grade
import Mathlib.Tactic.Linarith
import Mathlib.Data.List.Perm.Basic
import Mathlib.Data.List.Forall2
/-! Helper lemmas for the grading-core properties (C01, C05, C07, C08). -/
namespace Gr

/-! ### `mapM` in the `Except` monad -/
theorem mapM_ok_iff {α β ε : Type} (f : α → Except ε β) :
    ∀ (l : List α) (rs : List β), l.mapM f = .ok rs ↔ List.Forall₂ (fun x r => f x = .ok r) l rs := by
  intro l
  induction l with
  | nil =>
    intro rs
    simp only [List.mapM_nil, pure, Except.pure]
    constructor
    · intro h; cases h; exact List.Forall₂.nil
    · intro h; cases h; rfl
  | cons a l ih =>
    intro rs
    rw [List.mapM_cons]
    cases hfa : f a with
    | error e =>
      simp only [bind, Except.bind]
      constructor
      · intro h; cases h
      · intro h; cases h with | cons h1 _ => rw [hfa] at h1; cases h1
    | ok b =>
      simp only [bind, Except.bind]
      cases hl : l.mapM f with
      | error e =>
        simp only
        constructor
        · intro h; cases h
        · intro h
          cases h with
          | cons h1 h2 =>
            rename_i r rs'
            have := (ih rs').mpr h2
            rw [hl] at this; cases this
      | ok bs =>
        simp only [pure, Except.pure]
        constructor
        · intro h
          cases h
          exact List.Forall₂.cons hfa ((ih bs).mp hl)
        · intro h
          cases h with
          | cons h1 h2 =>
            rename_i r rs'
            rw [hfa] at h1; cases h1
            have := (ih rs').mpr h2
            rw [hl] at this; cases this; rfl

theorem mapM_error_iff {α β ε : Type} (f : α → Except ε β) (l : List α) :
    (∃ e, l.mapM f = .error e) ↔ ∃ x ∈ l, ∃ e, f x = .error e := by
  induction l with
  | nil => simp [pure, Except.pure]
  | cons a l ih =>
    rw [List.mapM_cons]
    cases hfa : f a with
    | error e =>
      simp only [bind, Except.bind]
      exact ⟨fun _ => ⟨a, by simp, e, hfa⟩, fun _ => ⟨e, rfl⟩⟩
    | ok b =>
      simp only [bind, Except.bind]
      cases hl : l.mapM f with
      | error e =>
        simp only
        have := ih.mp ⟨e, hl⟩
        obtain ⟨x, hx, e', he'⟩ := this
        exact ⟨fun _ => ⟨x, by simp [hx], e', he'⟩, fun _ => ⟨e, rfl⟩⟩
      | ok bs =>
        simp only [pure, Except.pure]
        constructor
        · intro ⟨e, h⟩; cases h
        · intro ⟨x, hx, e, he⟩
          rcases List.mem_cons.mp hx with rfl | hx
          · rw [hfa] at he; cases he
          · have := ih.mpr ⟨x, hx, e, he⟩
            obtain ⟨e', he'⟩ := this
            rw [hl] at he'; cases he'

theorem forall2_mem_left {α β : Type} {R : α → β → Prop} {l : List α} {rs : List β} (h : List.Forall₂ R l rs) :
    ∀ x ∈ l, ∃ r ∈ rs, R x r := by
  induction h with
  | nil => intro x hx; cases hx
  | cons h1 _ ih =>
    intro x hx
    rcases List.mem_cons.mp hx with rfl | hx
    · exact ⟨_, by simp, h1⟩
    · obtain ⟨r, hr, h⟩ := ih x hx; exact ⟨r, by simp [hr], h⟩

theorem forall2_mem_right {α β : Type} {R : α → β → Prop} {l : List α} {rs : List β} (h : List.Forall₂ R l rs) :
    ∀ r ∈ rs, ∃ x ∈ l, R x r := by
  induction h with
  | nil => intro x hx; cases hx
  | cons h1 _ ih =>
    intro r hr
    rcases List.mem_cons.mp hr with rfl | hr
    · exact ⟨_, by simp, h1⟩
    · obtain ⟨x, hx, h⟩ := ih r hr; exact ⟨x, by simp [hx], h⟩

/-! ### `maxRat`, `firstMaxBy` -/
theorem maxRat_spec : ∀ (l : List ℚ) (m : ℚ), maxRat l = some m → m ∈ l ∧ ∀ x ∈ l, x ≤ m := by
  intro l
  induction l with
  | nil => intro m h; simp [maxRat] at h
  | cons x xs ih =>
    intro m h
    simp only [maxRat] at h
    cases hm : maxRat xs with
    | none =>
      rw [hm] at h; simp only [Option.some.injEq] at h; subst h
      cases xs with
      | nil => simp
      | cons y ys => simp [maxRat] at hm; split at hm <;> simp at hm
    | some y =>
      rw [hm] at h; simp only [Option.some.injEq] at h
      obtain ⟨hy, hall⟩ := ih y hm
      by_cases hgt : y > x
      · rw [if_pos hgt] at h; subst h
        exact ⟨by simp [hy], fun z hz => by
          rcases List.mem_cons.mp hz with rfl | hz
          · exact le_of_lt hgt
          · exact hall z hz⟩
      · rw [if_neg hgt] at h; subst h
        exact ⟨by simp, fun z hz => by
          rcases List.mem_cons.mp hz with rfl | hz
          · exact le_refl _
          · exact le_trans (hall z hz) (not_lt.mp hgt)⟩

theorem maxRat_none {l : List ℚ} (h : maxRat l = none) : l = [] := by
  cases l with
  | nil => rfl
  | cons x xs => simp only [maxRat] at h; split at h <;> simp at h

theorem firstMaxBy_spec {α : Type} (f : α → ℕ) : ∀ (l : List α) (r : α), firstMaxBy f l = some r →
    r ∈ l ∧ ∀ x ∈ l, f x ≤ f r := by
  intro l
  induction l with
  | nil => intro r h; simp [firstMaxBy] at h
  | cons x xs ih =>
    intro r h
    simp only [firstMaxBy] at h
    cases hm : firstMaxBy f xs with
    | none =>
      rw [hm] at h; simp only [Option.some.injEq] at h; subst h
      cases xs with
      | nil => simp
      | cons y ys => simp only [firstMaxBy] at hm; split at hm <;> (try split at hm) <;> simp at hm
    | some y =>
      rw [hm] at h; simp only at h
      obtain ⟨hy, hall⟩ := ih y hm
      by_cases hgt : f y > f x
      · rw [if_pos hgt] at h; simp only [Option.some.injEq] at h; subst h
        exact ⟨by simp [hy], fun z hz => by
          rcases List.mem_cons.mp hz with rfl | hz
          · omega
          · exact hall z hz⟩
      · rw [if_neg hgt] at h; simp only [Option.some.injEq] at h; subst h
        exact ⟨by simp, fun z hz => by
          rcases List.mem_cons.mp hz with rfl | hz
          · omega
          · have := hall z hz; omega⟩

theorem firstMaxBy_none {α : Type} (f : α → ℕ) {l : List α} (h : firstMaxBy f l = none) : l = [] := by
  cases l with
  | nil => rfl
  | cons x xs => simp only [firstMaxBy] at h; split at h <;> (try split at h) <;> simp at h

end Gr

import Mitx.Model.Comparers
import Mathlib.Tactic.Linarith
import Mathlib.Tactic.Ring
import Mathlib.Tactic.Positivity
import Mathlib.Tactic.FieldSimp
/-! # The fit errors of `LinearComparer` are least-squares minima

`linear_comparer.py` computes, for each of the four relations `expected = a·student + b`
(equals: a = 1, b = 0; proportional: b = 0; offset: a = 1; linear: both free), a closed-form "fit error".
This file proves that each closed form is the **minimum over the free parameters of the squared residual**
`Σ (a·xᵢ + b − yᵢ)²` — so that "the relation holds within tolerance" (the code's test on the closed form) is equivalent to
"some relation of that shape fits the samples within tolerance". Everything is over exact rationals; `x` = student samples,
`y` = expected samples, as in the model. -/
namespace Cm

/-- squared residual of the relation `expected = a·student + b` on the samples -/
def resid2 (a b : Rat) (x y : List Rat) : Rat := sumL (zipW (fun p q => (a * p + b - q) * (a * p + b - q)) x y)

theorem foldl_add_shift (l : List Rat) (c : Rat) : l.foldl (· + ·) c = c + l.foldl (· + ·) 0 := by
  induction l generalizing c with
  | nil => simp
  | cons a as ih => simp only [List.foldl_cons]; rw [ih (c + a), ih (0 + a)]; ring

theorem sumL_nil : sumL [] = 0 := rfl
theorem sumL_cons (a : Rat) (l : List Rat) : sumL (a :: l) = a + sumL l := by
  unfold sumL; simp only [List.foldl_cons]; rw [foldl_add_shift]; ring

theorem sumL_nonneg (l : List Rat) (h : ∀ z ∈ l, 0 ≤ z) : 0 ≤ sumL l := by
  induction l with
  | nil => simp [sumL]
  | cons a as ih =>
    rw [sumL_cons]
    have := h a (by simp)
    have := ih (fun z hz => h z (by simp [hz]))
    linarith

theorem zipW_mem_sq (f : Rat → Rat → Rat) (hf : ∀ p q, 0 ≤ f p q) : ∀ (x y : List Rat), ∀ z ∈ zipW f x y, 0 ≤ z := by
  intro x
  induction x with
  | nil => intro y z hz; simp [zipW] at hz
  | cons p ps ih =>
    intro y z hz
    cases y with
    | nil => simp [zipW] at hz
    | cons q qs =>
      simp only [zipW, List.mem_cons] at hz
      rcases hz with rfl | hz
      · exact hf _ _
      · exact ih qs z hz

theorem resid2_nonneg (a b : Rat) (x y : List Rat) : 0 ≤ resid2 a b x y :=
  sumL_nonneg _ (zipW_mem_sq _ (fun _ _ => mul_self_nonneg _) x y)

/-- the elementary sums everything is expressed in -/
structure Sums where
  n : Rat
  sx : Rat
  sy : Rat
  sxx : Rat
  sxy : Rat
  syy : Rat

def sums (x y : List Rat) : Sums :=
  ⟨(x.length : Rat), sumL x, sumL y, sumL (x.map (fun p => p * p)), sumL (zipW (· * ·) x y), sumL (y.map (fun q => q * q))⟩

/-- the squared residual as a polynomial in the elementary sums -/
theorem resid2_expand (a b : Rat) : ∀ (x y : List Rat), x.length = y.length →
    resid2 a b x y = a * a * (sums x y).sxx + 2 * a * b * (sums x y).sx + (sums x y).n * b * b
      - 2 * a * (sums x y).sxy - 2 * b * (sums x y).sy + (sums x y).syy := by
  intro x
  induction x with
  | nil => intro y h; cases y with
    | nil => simp [resid2, sums, zipW, sumL]
    | cons _ _ => simp at h
  | cons p ps ih =>
    intro y h
    cases y with
    | nil => simp at h
    | cons q qs =>
      simp only [List.length_cons, Nat.add_right_cancel_iff] at h
      have := ih qs h
      simp only [resid2, sums, zipW, List.map_cons, sumL_cons, List.length_cons, Nat.cast_succ] at this ⊢
      rw [this]; ring

theorem sub_sum : ∀ (x y : List Rat), x.length = y.length → sumL (zipW (fun a b => b - a) x y) = sumL y - sumL x := by
  intro x
  induction x with
  | nil => intro y h; cases y with
    | nil => simp [zipW, sumL]
    | cons _ _ => simp at h
  | cons p ps ih =>
    intro y h
    cases y with
    | nil => simp at h
    | cons q qs =>
      simp only [List.length_cons, Nat.add_right_cancel_iff] at h
      simp only [zipW, sumL_cons, ih qs h]; ring

theorem shift_sq_sum (c : Rat) : ∀ (x : List Rat),
    sumL (x.map (fun a => (a - c) * (a - c))) = sumL (x.map (fun p => p * p)) - 2 * c * sumL x + (x.length : Rat) * c * c := by
  intro x
  induction x with
  | nil => simp [sumL]
  | cons p ps ih => simp only [List.map_cons, sumL_cons, List.length_cons, Nat.cast_succ, ih]; ring

theorem shift_mul_sum (c d : Rat) : ∀ (x y : List Rat), x.length = y.length →
    sumL (zipW (fun a b => (a - c) * (b - d)) x y) = sumL (zipW (· * ·) x y) - d * sumL x - c * sumL y + (x.length : Rat) * c * d := by
  intro x
  induction x with
  | nil => intro y h; cases y with
    | nil => simp [zipW, sumL]
    | cons _ _ => simp at h
  | cons p ps ih =>
    intro y h
    cases y with
    | nil => simp at h
    | cons q qs =>
      simp only [List.length_cons, Nat.add_right_cancel_iff] at h
      simp only [zipW, sumL_cons, List.length_cons, Nat.cast_succ, ih qs h]; ring

theorem shift_sq_nonneg (c : Rat) (x : List Rat) : 0 ≤ sumL (x.map (fun a => (a - c) * (a - c))) :=
  sumL_nonneg _ (by intro z hz; obtain ⟨a, _, rfl⟩ := List.mem_map.mp hz; exact mul_self_nonneg _)

/-! ### equals, offset -/

theorem equalsErr2_eq_resid2 (x y : List Rat) : equalsErr2 x y = resid2 1 0 x y := by
  unfold equalsErr2 resid2
  congr 2; funext p q; ring

theorem offsetErr2_eq_resid2 (x y : List Rat) :
    offsetErr2 x y = resid2 1 (sumL (zipW (fun a b => b - a) x y) / (x.length : Rat)) x y := by
  unfold offsetErr2 resid2
  simp only []
  congr 2; funext p q; ring

/-- **offset**: the code's offset fit error is the least squared residual over all shifts `b` (slope 1) -/
theorem offsetErr2_le (x y : List Rat) (h : x.length = y.length) (hn : 0 < x.length) (b : Rat) :
    offsetErr2 x y ≤ resid2 1 b x y := by
  rw [offsetErr2_eq_resid2, sub_sum x y h, resid2_expand _ _ x y h, resid2_expand _ _ x y h]
  have hn' : (0 : Rat) < (x.length : Rat) := by exact_mod_cast hn
  simp only [sums]
  generalize (x.length : Rat) = n at hn' ⊢
  generalize sumL x = sx
  generalize sumL y = sy
  generalize sumL (x.map fun p => p * p) = sxx
  generalize sumL (zipW (· * ·) x y) = sxy
  generalize sumL (y.map fun q => q * q) = syy
  have key : (1 * 1 * sxx + 2 * 1 * b * sx + n * b * b - 2 * 1 * sxy - 2 * b * sy + syy)
      - (1 * 1 * sxx + 2 * 1 * ((sy - sx) / n) * sx + n * ((sy - sx) / n) * ((sy - sx) / n) - 2 * 1 * sxy - 2 * ((sy - sx) / n) * sy + syy)
      = n * (b - (sy - sx) / n) * (b - (sy - sx) / n) := by
    field_simp; ring
  have : 0 ≤ n * (b - (sy - sx) / n) * (b - (sy - sx) / n) := by
    have := mul_self_nonneg (b - (sy - sx) / n)
    nlinarith
  linarith

/-! ### proportional -/

theorem propErr2_expand (x y : List Rat) :
    propErr2 x y = if (sums x y).sxx = 0 then (sums x y).syy else (sums x y).syy - (sums x y).sxy * (sums x y).sxy / (sums x y).sxx := by
  rfl

theorem sxx_nonneg (x y : List Rat) : 0 ≤ (sums x y).sxx :=
  sumL_nonneg _ (by intro z hz; obtain ⟨a, _, rfl⟩ := List.mem_map.mp hz; exact mul_self_nonneg _)

/-- `Σ xᵢ² = 0` forces `Σ xᵢ yᵢ = 0` and `Σ xᵢ = 0` (all `xᵢ` vanish) -/
theorem sxx_zero (x : List Rat) (h0 : sumL (x.map (fun p => p * p)) = 0) : ∀ p ∈ x, p = 0 := by
  induction x with
  | nil => intro p hp; simp at hp
  | cons a as ih =>
    simp only [List.map_cons, sumL_cons] at h0
    have h1 : 0 ≤ sumL (as.map (fun p => p * p)) :=
      sumL_nonneg _ (by intro z hz; obtain ⟨c, _, rfl⟩ := List.mem_map.mp hz; exact mul_self_nonneg _)
    have h2 := mul_self_nonneg a
    have ha : a * a = 0 := by linarith
    have hs : sumL (as.map (fun p => p * p)) = 0 := by linarith
    intro p hp
    rcases List.mem_cons.mp hp with rfl | hp
    · exact mul_self_eq_zero.mp ha
    · exact ih hs p hp

theorem sums_of_zero (x y : List Rat) (h : x.length = y.length) (hz : ∀ p ∈ x, p = 0) :
    (sums x y).sx = 0 ∧ (sums x y).sxy = 0 := by
  induction x generalizing y with
  | nil => cases y with
    | nil => simp [sums, sumL, zipW]
    | cons _ _ => simp at h
  | cons p ps ih =>
    cases y with
    | nil => simp at h
    | cons q qs =>
      simp only [List.length_cons, Nat.add_right_cancel_iff] at h
      have hp : p = 0 := hz p (by simp)
      obtain ⟨h1, h2⟩ := ih qs h (fun r hr => hz r (by simp [hr]))
      simp only [sums, zipW, sumL_cons] at h1 h2 ⊢
      subst hp
      constructor <;> simp [h1, h2]

/-- **proportional**: the code's proportional fit error is the least squared residual over all factors `a` (no shift) -/
theorem propErr2_le (x y : List Rat) (h : x.length = y.length) (a : Rat) : propErr2 x y ≤ resid2 a 0 x y := by
  rw [propErr2_expand, resid2_expand _ _ x y h]
  have hnn := sxx_nonneg x y
  by_cases h0 : (sums x y).sxx = 0
  · obtain ⟨_, hxy⟩ := sums_of_zero x y h (sxx_zero x (by simpa [sums] using h0))
    simp only [h0, ↓reduceIte, hxy]
    linarith
  · simp only [h0, ↓reduceIte]
    have hpos : 0 < (sums x y).sxx := lt_of_le_of_ne hnn (Ne.symm h0)
    generalize (sums x y).sxx = sxx at hpos ⊢
    generalize (sums x y).sxy = sxy
    generalize (sums x y).syy = syy
    generalize (sums x y).sx = sx
    generalize (sums x y).sy = sy
    generalize (sums x y).n = n
    have key : (a * a * sxx + 2 * a * 0 * sx + n * 0 * 0 - 2 * a * sxy - 2 * 0 * sy + syy) - (syy - sxy * sxy / sxx)
        = (a * sxx - sxy) * (a * sxx - sxy) / sxx := by
      field_simp; ring
    have : 0 ≤ (a * sxx - sxy) * (a * sxx - sxy) / sxx := div_nonneg (mul_self_nonneg _) (le_of_lt hpos)
    linarith

theorem propErr2_attained (x y : List Rat) (h : x.length = y.length) : ∃ a, propErr2 x y = resid2 a 0 x y := by
  by_cases h0 : (sums x y).sxx = 0
  · refine ⟨0, ?_⟩
    rw [propErr2_expand, resid2_expand _ _ x y h]
    simp [h0]
  · refine ⟨(sums x y).sxy / (sums x y).sxx, ?_⟩
    rw [propErr2_expand, resid2_expand _ _ x y h]
    simp only [h0, ↓reduceIte]
    generalize (sums x y).sxx = sxx at h0 ⊢
    generalize (sums x y).sxy = sxy
    generalize (sums x y).syy = syy
    field_simp; ring

/-! ### linear -/

theorem shift_sq_zero (c : Rat) (x : List Rat) (h0 : sumL (x.map (fun a => (a - c) * (a - c))) = 0) : ∀ p ∈ x, p = c := by
  induction x with
  | nil => intro p hp; simp at hp
  | cons a as ih =>
    simp only [List.map_cons, sumL_cons] at h0
    have h1 := shift_sq_nonneg c as
    have h2 := mul_self_nonneg (a - c)
    have ha : (a - c) * (a - c) = 0 := by linarith
    have hs : sumL (as.map (fun a => (a - c) * (a - c))) = 0 := by linarith
    intro p hp
    rcases List.mem_cons.mp hp with rfl | hp
    · have := mul_self_eq_zero.mp ha; linarith
    · exact ih hs p hp

theorem sums_of_const (c : Rat) (x y : List Rat) (h : x.length = y.length) (hc : ∀ p ∈ x, p = c) :
    (sums x y).sx = (sums x y).n * c ∧ (sums x y).sxx = (sums x y).n * c * c ∧ (sums x y).sxy = c * (sums x y).sy := by
  induction x generalizing y with
  | nil => cases y with
    | nil => simp [sums, sumL, zipW]
    | cons _ _ => simp at h
  | cons p ps ih =>
    cases y with
    | nil => simp at h
    | cons q qs =>
      simp only [List.length_cons, Nat.add_right_cancel_iff] at h
      have hp : p = c := hc p (by simp)
      obtain ⟨h1, h2, h3⟩ := ih qs h (fun r hr => hc r (by simp [hr]))
      simp only [sums, zipW, sumL_cons, List.map_cons, List.length_cons, Nat.cast_succ] at h1 h2 h3 ⊢
      subst hp
      refine ⟨?_, ?_, ?_⟩
      · rw [h1]; ring
      · rw [h2]; ring
      · rw [h3]; ring

/-- the centred sums of the model, in terms of the elementary sums -/
theorem linearErr2_expand (x y : List Rat) (h : x.length = y.length) :
    linearErr2 x y =
      let s := sums x y
      let mx := s.sx / s.n
      let my := s.sy / s.n
      let cxx := s.sxx - 2 * mx * s.sx + s.n * mx * mx
      let cxy := s.sxy - my * s.sx - mx * s.sy + s.n * mx * my
      let cyy := s.syy - 2 * my * s.sy + s.n * my * my
      if cxx = 0 then offsetErr2 x y else cyy - cxy * cxy / cxx := by
  simp only [linearErr2, sums]
  rw [shift_sq_sum, shift_mul_sum _ _ x y h, shift_sq_sum, ← h]
  rfl

/-- **linear**: the code's linear fit error is the least squared residual over all `(a, b)` -/
theorem linearErr2_le (x y : List Rat) (h : x.length = y.length) (hn : 0 < x.length) (a b : Rat) :
    linearErr2 x y ≤ resid2 a b x y := by
  have hn' : (0 : Rat) < (sums x y).n := by simp only [sums]; exact_mod_cast hn
  have hcxx : 0 ≤ (sums x y).sxx - 2 * ((sums x y).sx / (sums x y).n) * (sums x y).sx
      + (sums x y).n * ((sums x y).sx / (sums x y).n) * ((sums x y).sx / (sums x y).n) := by
    have := shift_sq_nonneg ((sums x y).sx / (sums x y).n) x
    rw [shift_sq_sum] at this
    simpa [sums] using this
  rw [linearErr2_expand x y h]
  simp only []
  by_cases h0 : (sums x y).sxx - 2 * ((sums x y).sx / (sums x y).n) * (sums x y).sx
      + (sums x y).n * ((sums x y).sx / (sums x y).n) * ((sums x y).sx / (sums x y).n) = 0
  · -- all student samples are equal: every line through them is a shift of the slope-1 line
    simp only [h0, ↓reduceIte]
    have hconst : ∀ p ∈ x, p = (sums x y).sx / (sums x y).n := by
      apply shift_sq_zero
      rw [shift_sq_sum]
      simpa [sums] using h0
    obtain ⟨h1, h2, h3⟩ := sums_of_const _ x y h hconst
    have hle := offsetErr2_le x y h hn ((a - 1) * ((sums x y).sx / (sums x y).n) + b)
    have heq : resid2 1 ((a - 1) * ((sums x y).sx / (sums x y).n) + b) x y = resid2 a b x y := by
      rw [resid2_expand _ _ x y h, resid2_expand _ _ x y h]
      generalize (sums x y).sx / (sums x y).n = c at h1 h2 h3 ⊢
      rw [h2, h3, h1]; ring
    rw [heq] at hle; exact hle
  · simp only [h0, ↓reduceIte]
    have hpos := lt_of_le_of_ne hcxx (Ne.symm h0)
    rw [resid2_expand _ _ x y h]
    generalize (sums x y).sxx = sxx at hpos ⊢
    generalize (sums x y).sxy = sxy at hpos ⊢
    generalize (sums x y).syy = syy at hpos ⊢
    generalize (sums x y).sx = sx at hpos ⊢
    generalize (sums x y).sy = sy at hpos ⊢
    generalize (sums x y).n = n at hn' hpos ⊢
    -- name the centred sums
    obtain ⟨cxx, hcx⟩ : ∃ cxx, cxx = sxx - 2 * (sx / n) * sx + n * (sx / n) * (sx / n) := ⟨_, rfl⟩
    obtain ⟨cxy, hcxy⟩ : ∃ cxy, cxy = sxy - sy / n * sx - sx / n * sy + n * (sx / n) * (sy / n) := ⟨_, rfl⟩
    obtain ⟨cyy, hcyy⟩ : ∃ cyy, cyy = syy - 2 * (sy / n) * sy + n * (sy / n) * (sy / n) := ⟨_, rfl⟩
    rw [← hcx] at hpos
    rw [← hcx, ← hcxy, ← hcyy]
    have hR : a * a * sxx + 2 * a * b * sx + n * b * b - 2 * a * sxy - 2 * b * sy + syy
        = a * a * cxx - 2 * a * cxy + cyy + n * (a * (sx / n) + b - sy / n) * (a * (sx / n) + b - sy / n) := by
      rw [hcx, hcxy, hcyy]; field_simp; ring
    have hsq : a * a * cxx - 2 * a * cxy + cxy * cxy / cxx = (a * cxx - cxy) * (a * cxx - cxy) / cxx := by
      field_simp; ring
    have h1 : 0 ≤ (a * cxx - cxy) * (a * cxx - cxy) / cxx := div_nonneg (mul_self_nonneg _) (le_of_lt hpos)
    have h2 : 0 ≤ n * (a * (sx / n) + b - sy / n) * (a * (sx / n) + b - sy / n) := by
      have := mul_self_nonneg (a * (sx / n) + b - sy / n)
      nlinarith
    rw [hR]; linarith

theorem offsetErr2_attained (x y : List Rat) : ∃ b, offsetErr2 x y = resid2 1 b x y := ⟨_, offsetErr2_eq_resid2 x y⟩

theorem linearErr2_attained (x y : List Rat) (h : x.length = y.length) (hn : 0 < x.length) :
    ∃ a b, linearErr2 x y = resid2 a b x y := by
  have hn' : (0 : Rat) < (sums x y).n := by simp only [sums]; exact_mod_cast hn
  rw [linearErr2_expand x y h]
  simp only []
  by_cases h0 : (sums x y).sxx - 2 * ((sums x y).sx / (sums x y).n) * (sums x y).sx
      + (sums x y).n * ((sums x y).sx / (sums x y).n) * ((sums x y).sx / (sums x y).n) = 0
  · simp only [h0, ↓reduceIte]
    exact ⟨1, _, offsetErr2_eq_resid2 x y⟩
  · simp only [h0, ↓reduceIte]
    refine ⟨((sums x y).sxy - (sums x y).sy / (sums x y).n * (sums x y).sx - (sums x y).sx / (sums x y).n * (sums x y).sy
        + (sums x y).n * ((sums x y).sx / (sums x y).n) * ((sums x y).sy / (sums x y).n))
        / ((sums x y).sxx - 2 * ((sums x y).sx / (sums x y).n) * (sums x y).sx
          + (sums x y).n * ((sums x y).sx / (sums x y).n) * ((sums x y).sx / (sums x y).n)), ?_, ?_⟩
    · exact (sums x y).sy / (sums x y).n - ((sums x y).sxy - (sums x y).sy / (sums x y).n * (sums x y).sx - (sums x y).sx / (sums x y).n * (sums x y).sy
        + (sums x y).n * ((sums x y).sx / (sums x y).n) * ((sums x y).sy / (sums x y).n))
        / ((sums x y).sxx - 2 * ((sums x y).sx / (sums x y).n) * (sums x y).sx
          + (sums x y).n * ((sums x y).sx / (sums x y).n) * ((sums x y).sx / (sums x y).n)) * ((sums x y).sx / (sums x y).n)
    · rw [resid2_expand _ _ x y h]
      generalize (sums x y).sxx = sxx at h0 ⊢
      generalize (sums x y).sxy = sxy at h0 ⊢
      generalize (sums x y).syy = syy at h0 ⊢
      generalize (sums x y).sx = sx at h0 ⊢
      generalize (sums x y).sy = sy at h0 ⊢
      generalize (sums x y).n = n at hn' h0 ⊢
      obtain ⟨cxx, hcx⟩ : ∃ cxx, cxx = sxx - 2 * (sx / n) * sx + n * (sx / n) * (sx / n) := ⟨_, rfl⟩
      obtain ⟨cxy, hcxy⟩ : ∃ cxy, cxy = sxy - sy / n * sx - sx / n * sy + n * (sx / n) * (sy / n) := ⟨_, rfl⟩
      obtain ⟨cyy, hcyy⟩ : ∃ cyy, cyy = syy - 2 * (sy / n) * sy + n * (sy / n) * (sy / n) := ⟨_, rfl⟩
      rw [← hcx] at h0
      rw [← hcx, ← hcxy, ← hcyy]
      have hsxx : sxx = cxx + sx * sx / n := by rw [hcx]; field_simp; ring
      have hsxy : sxy = cxy + sx * sy / n := by rw [hcxy]; field_simp; ring
      have hsyy : syy = cyy + sy * sy / n := by rw [hcyy]; field_simp; ring
      rw [hsxx, hsxy, hsyy]
      have hn0 : n ≠ 0 := ne_of_gt hn'
      field_simp
      ring

end Cm

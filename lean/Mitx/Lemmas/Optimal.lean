import Mitx.Lemmas.Grade
import Mitx.Munkres.Square
/-! `find_optimal_order` returns the results of an assignment of inputs to answers with maximal total credit
(link between the Munkres theorem and the list graders). -/
namespace Gr
open Finset

theorem forall2_get {α β : Type} {R : α → β → Prop} {l : List α} {rs : List β} (h : List.Forall₂ R l rs) :
    l.length = rs.length ∧ ∀ i (h1 : i < l.length) (h2 : i < rs.length), R l[i] rs[i] := by
  induction h with
  | nil => exact ⟨rfl, fun i h1 => by simp at h1⟩
  | cons h1 _ ih =>
    refine ⟨by simp [ih.1], ?_⟩
    intro i hi1 hi2
    cases i with
    | zero => simpa using h1
    | succ k => simpa using ih.2 k (by simpa using hi1) (by simpa using hi2)

theorem length_filterMap_of_all_some {α β : Type} (f : α → Option β) :
    ∀ l : List α, (∀ x ∈ l, (f x).isSome) → (l.filterMap f).length = l.length := by
  intro l
  induction l with
  | nil => intro _; rfl
  | cons x xs ih =>
    intro h
    obtain ⟨v, hv⟩ := Option.isSome_iff_exists.mp (h x (by simp))
    simp only [List.filterMap_cons, hv, List.length_cons]
    rw [ih (fun y hy => h y (by simp [hy]))]

/-- the shape of the credit matrix computed by `findOptimalOrder` -/
theorem mat_shape {α β ρ : Type} {check : α → β → M ρ} {answers : List α} {inputs : List β} {mat : List (List ρ)}
    (h : inputs.mapM (fun i => answers.mapM (fun a => check a i)) = .ok mat) :
    mat.length = inputs.length ∧
    ∀ i (hi : i < inputs.length) (hm : i < mat.length), mat[i].length = answers.length ∧
      ∀ j (hj : j < answers.length) (hr : j < mat[i].length), check answers[j] inputs[i] = .ok (mat[i][j]) := by
  have hf := (mapM_ok_iff _ _ _).mp h
  obtain ⟨hl, hg⟩ := forall2_get hf
  refine ⟨hl.symm, ?_⟩
  intro i hi hm
  have hrow := hg i hi hm
  have hf2 := (mapM_ok_iff _ _ _).mp hrow
  obtain ⟨hl2, hg2⟩ := forall2_get hf2
  exact ⟨hl2.symm, fun j hj hr => hg2 j hj hr⟩

/-- **Optimal assignment.** If `findOptimalOrder` succeeds on `n` answers and `n` inputs (`n > 0`), there is a
    result matrix `R` (`R i j` = result of checking input `i` against answer `j`) and a permutation `τ` such that
    the returned list is `[R 0 (τ 0), R 1 (τ 1), …]` — one result per input, in input order — and no other
    assignment of inputs to answers has a larger total credit. -/
theorem findOptimalOrder_optimal {α β ρ : Type} {check : α → β → M ρ} {grade : ρ → ℚ} {answers : List α} {inputs : List β}
    {n : ℕ} (hn : 0 < n) (ha : answers.length = n) (hi : inputs.length = n) {out : List ρ}
    (h : findOptimalOrder check grade answers inputs = .ok out) :
    ∃ (R : Fin n → Fin n → ρ) (τ : Equiv.Perm (Fin n)),
      (∀ i j : Fin n, check (answers[j.1]'(by rw [ha]; exact j.2)) (inputs[i.1]'(by rw [hi]; exact i.2)) = .ok (R i j)) ∧
      out = List.ofFn (fun i : Fin n => R i (τ i)) ∧
      ∀ σ : Equiv.Perm (Fin n), ∑ i, grade (R i (σ i)) ≤ ∑ i, grade (R i (τ i)) := by
  unfold findOptimalOrder at h
  simp only [bind, Except.bind] at h
  cases hm : inputs.mapM (fun i => answers.mapM (fun a => check a i)) with
  | error e => rw [hm] at h; cases h
  | ok mat =>
    rw [hm] at h
    simp only at h
    obtain ⟨hlen, hrows⟩ := mat_shape hm
    have hmatn : mat.length = n := by rw [hlen, hi]
    let cost := mat.map (fun row => row.map (fun r => 1 - grade r))
    have hsq : Mk.IsSquare cost n := by
      refine ⟨hn, by simp [cost, hmatn], ?_⟩
      intro row hrow
      simp only [cost, List.mem_map] at hrow
      obtain ⟨r, hr, rfl⟩ := hrow
      obtain ⟨k, hk, rfl⟩ := List.mem_iff_getElem.mp hr
      rw [List.length_map, (hrows k (by rw [← hlen]; exact hk) hk).1, ha]
    obtain ⟨τ, hcomp, hopt⟩ := Mk.compute_square hsq
    have hcomp' : Mk.compute (List.map (fun row => List.map (fun r => 1 - grade r) row) mat) = _ := hcomp
    rw [hcomp'] at h
    simp only [pure, Except.pure, Except.ok.injEq] at h
    -- the result matrix as a function
    have hrowlen : ∀ i : Fin n, (mat[i.1]'(by rw [hmatn]; exact i.2)).length = n := by
      intro i
      rw [(hrows i.1 (by rw [hi]; exact i.2) (by rw [hmatn]; exact i.2)).1, ha]
    let R : Fin n → Fin n → ρ := fun i j => (mat[i.1]'(by rw [hmatn]; exact i.2))[j.1]'(by rw [hrowlen i]; exact j.2)
    refine ⟨R, τ, ?_, ?_, ?_⟩
    · intro i j
      exact (hrows i.1 (by rw [hi]; exact i.2) (by rw [hmatn]; exact i.2)).2 j.1 (by rw [ha]; exact j.2) (by rw [hrowlen i]; exact j.2)
    · rw [← h]
      apply List.ext_getElem
      · simp only [List.length_ofFn]
        rw [length_filterMap_of_all_some]
        · simp
        · intro p hp
          simp only [List.mem_map, List.mem_range] at hp
          obtain ⟨i, hi', rfl⟩ := hp
          simp only [hi', dite_true]
          have h1 : i < mat.length := by rw [hmatn]; exact hi'
          have h2 : (τ ⟨i, hi'⟩ : ℕ) < mat[i].length := by
            have := hrowlen ⟨i, hi'⟩; simp only at this; rw [this]; exact (τ ⟨i, hi'⟩).2
          simp [h1, h2]
      · intro k hk1 hk2
        simp only [List.length_ofFn] at hk2
        have h1 : k < mat.length := by rw [hmatn]; exact hk2
        have h2 : (τ ⟨k, hk2⟩ : ℕ) < mat[k].length := by
          have := hrowlen ⟨k, hk2⟩; simp only at this; rw [this]; exact (τ ⟨k, hk2⟩).2
        have hfm : ∀ (l : List (ℕ × ℕ)) (hall : ∀ p ∈ l, ((mat[p.1]?).bind (fun row => row[p.2]?)).isSome),
            ∀ k (hk : k < (l.filterMap (fun p => (mat[p.1]?).bind (fun row => row[p.2]?))).length) (hk' : k < l.length),
            some ((l.filterMap (fun p => (mat[p.1]?).bind (fun row => row[p.2]?)))[k]) =
              (mat[(l[k]).1]?).bind (fun row => row[(l[k]).2]?) := by
          intro l
          induction l with
          | nil => intro _ k hk; simp at hk
          | cons p l ih =>
            intro hall k hk hk'
            have hp := hall p (by simp)
            obtain ⟨v, hv⟩ := Option.isSome_iff_exists.mp hp
            simp only [List.filterMap_cons, hv] at hk ⊢
            cases k with
            | zero => simp [hv]
            | succ k =>
              simp only [List.getElem_cons_succ]
              exact ih (fun q hq => hall q (by simp [hq])) k (by simpa using hk) (by simpa using hk')
        have hall : ∀ p ∈ (List.range n).map (fun i => (i, if hi : i < n then ((τ ⟨i, hi⟩ : Fin n) : ℕ) else 0)),
            ((mat[p.1]?).bind (fun row => row[p.2]?)).isSome := by
          intro p hp
          simp only [List.mem_map, List.mem_range] at hp
          obtain ⟨i, hi', rfl⟩ := hp
          simp only [hi', dite_true]
          have h1 : i < mat.length := by rw [hmatn]; exact hi'
          have h2 : (τ ⟨i, hi'⟩ : ℕ) < mat[i].length := by
            have := hrowlen ⟨i, hi'⟩; simp only at this; rw [this]; exact (τ ⟨i, hi'⟩).2
          simp [h1, h2]
        have := hfm _ hall k hk1 (by simp [hk2])
        simp only [List.getElem_map, List.getElem_range, hk2, dite_true] at this
        simp only [h1, getElem?_pos, Option.bind_some, h2] at this
        simp only [List.getElem_ofFn, R]
        exact Option.some.inj this
    · intro σ
      have hcost : ∀ i j : Fin n, Mk.matFn cost i.1 j.1 = 1 - grade (R i j) := by
        intro i j
        have h1 : i.1 < mat.length := by rw [hmatn]; exact i.2
        have h2 : j.1 < (mat[i.1]).length := by rw [hrowlen i]; exact j.2
        simp only [Mk.matFn, cost, List.getD_eq_getElem?_getD, List.getElem?_map, h1, getElem?_pos, Option.map_some,
          Option.getD_some, h2, R]
      have := hopt σ
      simp only [hcost] at this
      simp only [Finset.sum_sub_distrib] at this
      linarith

end Gr

import Mitx.Model.Interval
import Mitx.Lemmas.Tree
/-! IntervalGrader: bracket grading rules and the range / `ok` consistency of the result. -/
namespace Gr
open C01 At

def lists (s : String) (b : BrAns) : Prop := b.expect.contains s = true

theorem brFold_spec (s : String) : ∀ (l : List BrAns) (acc : Option BrAns), (∀ x, acc = some x → lists s x) →
    (l.foldl (brStep s) acc = none ↔ acc = none ∧ ∀ b ∈ l, ¬ lists s b) ∧
    ∀ b, l.foldl (brStep s) acc = some b → lists s b ∧ (b ∈ l ∨ acc = some b) ∧
      (∀ b' ∈ l, lists s b' → b'.grade ≤ b.grade) ∧ (∀ x, acc = some x → x.grade ≤ b.grade)
  | [], acc, hacc => by
    simp only [List.foldl_nil, List.not_mem_nil, false_or, IsEmpty.forall_iff, implies_true, and_true, true_and]
    intro b hb
    exact ⟨hacc b hb, hb, fun x hx => by rw [hb] at hx; cases hx; exact le_refl _⟩
  | a :: rest, acc, hacc => by
    simp only [List.foldl_cons]
    by_cases ha : lists s a
    · -- the new accumulator lists s
      have hstep : ∃ y, brStep s acc a = some y ∧ lists s y ∧ a.grade ≤ y.grade ∧ (∀ x, acc = some x → x.grade ≤ y.grade) ∧
          (y = a ∨ acc = some y) := by
        unfold brStep; unfold lists at ha; simp only [ha, ↓reduceIte]
        cases acc with
        | none => exact ⟨a, rfl, ha, le_refl _, (fun x hx => by cases hx), Or.inl rfl⟩
        | some x =>
          by_cases hgt : a.grade > x.grade
          · simp only [hgt, ↓reduceIte]
            exact ⟨a, rfl, ha, le_refl _, (fun y hy => by cases hy; exact le_of_lt hgt), Or.inl rfl⟩
          · simp only [hgt, ↓reduceIte]
            exact ⟨x, rfl, hacc x rfl, not_lt.mp hgt, (fun y hy => by cases hy; exact le_refl _), Or.inr rfl⟩
      obtain ⟨y, hy, hly, hay, hxy, hor⟩ := hstep
      rw [hy]
      obtain ⟨i1, i2⟩ := brFold_spec s rest (some y) (fun x hx => by cases hx; exact hly)
      refine ⟨⟨(fun h => by have := (i1.mp h).1; cases this), (fun h => absurd ha (h.2 a (by simp)))⟩, ?_⟩
      intro b hb
      obtain ⟨m0, m1, m2, m3⟩ := i2 b hb
      have hyb := m3 y rfl
      refine ⟨m0, ?_, ?_, fun x hx => le_trans (hxy x hx) hyb⟩
      · rcases m1 with h | h
        · exact Or.inl (List.mem_cons_of_mem _ h)
        · cases h
          rcases hor with rfl | h'
          · exact Or.inl (by simp)
          · exact Or.inr h'
      · intro b' hb' hl'
        rcases List.mem_cons.mp hb' with rfl | h
        · exact le_trans hay hyb
        · exact m2 b' h hl'
    · have hstep : brStep s acc a = acc := by
        unfold brStep; unfold lists at ha
        rw [if_neg ha]
      rw [hstep]
      obtain ⟨i1, i2⟩ := brFold_spec s rest acc hacc
      refine ⟨⟨fun h => ⟨(i1.mp h).1, fun b hb => by
          rcases List.mem_cons.mp hb with rfl | h'
          · exact ha
          · exact (i1.mp h).2 b h'⟩, fun h => i1.mpr ⟨h.1, fun b hb => h.2 b (List.mem_cons_of_mem _ hb)⟩⟩, ?_⟩
      intro b hb
      obtain ⟨m0, m1, m2, m3⟩ := i2 b hb
      refine ⟨m0, ?_, ?_, m3⟩
      · rcases m1 with h | h
        · exact Or.inl (List.mem_cons_of_mem _ h)
        · exact Or.inr h
      · intro b' hb' hl'
        rcases List.mem_cons.mp hb' with rfl | h
        · exact absurd hl' ha
        · exact m2 b' h hl'

/-- the bracket answer chosen by `grade_bracket` lists the student's character and has maximal credit among the answers that
    do; none is chosen exactly when no answer lists it -/
theorem bestBracket_spec (answers : List BrAns) (s : String) :
    (bestBracket answers s = none ↔ ∀ b ∈ answers, ¬ lists s b) ∧
    ∀ b, bestBracket answers s = some b → b ∈ answers ∧ lists s b ∧ ∀ b' ∈ answers, lists s b' → b'.grade ≤ b.grade := by
  obtain ⟨h1, h2⟩ := brFold_spec s answers none (fun x hx => by cases hx)
  refine ⟨by simpa [bestBracket] using h1, ?_⟩
  intro b hb
  obtain ⟨m0, m1, m2, _⟩ := h2 b hb
  rcases m1 with h | h
  · exact ⟨h, m0, m2⟩
  · cases h

/-- **Bracket rules.** A bound that earned nothing is not touched; a bracket no answer lists zeroes the bound; otherwise the
    bound's credit is multiplied by the largest credit among the bracket answers that list the character, and `ok` is
    recomputed from the product. -/
theorem gradeBracket_rules (answers : List BrAns) (s : String) (e : IRes) :
    (e.grade = 0 → gradeBracket answers s e = e) ∧
    (e.grade ≠ 0 → (∀ b ∈ answers, ¬ lists s b) → (gradeBracket answers s e).grade = 0 ∧ (gradeBracket answers s e).ok = .no) ∧
    (e.grade ≠ 0 → ∀ b, bestBracket answers s = some b →
      (gradeBracket answers s e).grade = e.grade * b.grade ∧ (gradeBracket answers s e).ok = gradeToOk (e.grade * b.grade)) := by
  refine ⟨fun h0 => by simp [gradeBracket, h0], fun hne hno => ?_, fun hne b hb => ?_⟩
  · have := (bestBracket_spec answers s).1.mpr hno
    simp [gradeBracket, hne, this]
  · simp [gradeBracket, hne, hb]

/-- `grade_bracket` keeps entries good when the bracket credits are in [0,1] -/
theorem gradeBracket_good {pin : Bool} (answers : List BrAns) (hans : ∀ b ∈ answers, 0 ≤ b.grade ∧ b.grade ≤ 1) (s : String)
    {e : IRes} (he : Good pin e) : Good pin (gradeBracket answers s e) := by
  obtain ⟨r0, r1, r2⟩ := gradeBracket_rules answers s e
  by_cases h0 : e.grade = 0
  · rw [r0 h0]; exact he
  · cases hb : bestBracket answers s with
    | none =>
      obtain ⟨g, o⟩ := r1 h0 ((bestBracket_spec answers s).1.mp hb)
      exact ⟨by unfold WF; rw [g]; exact ⟨le_refl _, by norm_num⟩, fun _ => by unfold OkConsistent; rw [g, o]; simp [gradeToOk]⟩
    | some b =>
      obtain ⟨g, o⟩ := r2 h0 b hb
      obtain ⟨bm, _, _⟩ := (bestBracket_spec answers s).2 b hb
      obtain ⟨b0, b1⟩ := hans b bm
      obtain ⟨⟨e0, e1⟩, _⟩ := he
      refine ⟨by unfold WF; rw [g]; exact ⟨mul_nonneg e0 b0, by nlinarith⟩, fun _ => by unfold OkConsistent; rw [g, o]⟩

/-- the per-item grade list of an *ordered* SingleListGrader consists of (padded) subgrader results -/
theorem slGradeList_good {α : Type} {cfg : SLCfg} {sub : α → String → M IRes} {pin : Bool} {items : List α} {inp : String}
    {gl : List IRes} (hord : cfg.ordered = true) (hsub : ∀ a ∈ items, ∀ i r, sub a i = .ok r → Good pin r)
    (h : slGradeList cfg sub items inp = .ok gl) : ∀ r ∈ gl, Good pin r := by
  unfold slGradeList at h
  simp only [bind, Except.bind, pure, Except.pure, hord, ↓reduceIte] at h
  by_cases h1 : (cfg.lengthError && items.length != (pySplit inp cfg.delimiter).length) = true
  · simp [h1, throw, throwThe, MonadExceptOf.throw] at h
  · simp only [h1, Bool.false_eq_true, ↓reduceIte] at h
    by_cases h2 : cfg.missingError = true
    · simp only [h2, ↓reduceIte] at h
      by_cases h3 : (!((List.filter (fun p => pyStrip p.1 == "") (pySplit inp cfg.delimiter).zipIdx).map (fun p => p.2 + 1)).isEmpty) = true
      · rw [if_pos h3] at h; cases h
      · rw [if_neg h3] at h
        have hf := (mapM_ok_iff _ _ _).mp h
        intro r hr
        obtain ⟨p, hp, hpr⟩ := forall2_mem_right hf r hr
        exact paddedCheck_good hsub (List.of_mem_zip hp).1 hpr
    · simp only [h2, Bool.false_eq_true, ↓reduceIte] at h
      have hf := (mapM_ok_iff _ _ _).mp h
      intro r hr
      obtain ⟨p, hp, hpr⟩ := forall2_mem_right hf r hr
      exact paddedCheck_good hsub (List.of_mem_zip hp).1 hpr

/-- **IntervalGrader.check_response is good**: with bracket credits and the answer's own credit in [0,1] and a subgrader whose
    results are good, the result has a grade in [0,1] and `ok` determined by it -/
theorem interval_good {α : Type} {cfg : IvCfg} {sub : α → String → M IRes} {pin : Bool} {m : AnsMeta} {opn cls : List BrAns} {lo hi : α}
    {inp : String} {out : IRes} (hm0 : 0 ≤ m.grade) (hm1 : m.grade ≤ 1)
    (hopn : ∀ b ∈ opn, 0 ≤ b.grade ∧ b.grade ≤ 1) (hcls : ∀ b ∈ cls, 0 ≤ b.grade ∧ b.grade ≤ 1)
    (hsub : ∀ a, a = lo ∨ a = hi → ∀ i r, sub a i = .ok r → Good pin r)
    (h : intervalCheckResponse cfg sub m opn lo hi cls inp = .ok out) : Good pin out := by
  unfold intervalCheckResponse at h
  simp only [bind, Except.bind, pure, Except.pure] at h
  split at h
  · simp [throw, throwThe, MonadExceptOf.throw] at h
  · split at h
    · simp [throw, throwThe, MonadExceptOf.throw] at h
    · split at h
      · simp [throw, throwThe, MonadExceptOf.throw] at h
      · split at h
        · cases h
        · next gl hgl =>
          split at h
          · next g0 g1 =>
            simp only [Except.ok.injEq] at h; subst h
            have hall := slGradeList_good (pin := pin) (cfg := cfg.sl) rfl
              (fun a ha i r' hr' => hsub a (by simpa using ha) i r' hr') hgl
            have h0 := gradeBracket_good opn hopn (String.singleton ((pyStrip inp).toList.headD ' ')) (hall g0 (by simp))
            have h1 := gradeBracket_good cls hcls (String.singleton ((pyStrip inp).toList.getLastD ' ')) (hall g1 (by simp))
            obtain ⟨hw, hok⟩ := processGradeList_wf cfg.sl [_, _] 2 m (by norm_num)
              (fun r hr => by
                simp only [List.mem_cons, List.mem_nil_iff, or_false] at hr
                rcases hr with rfl | rfl
                · exact h0.1.2
                · exact h1.1.2) hm0 hm1
            exact ⟨hw, fun _ => hok⟩
          · simp [throw, throwThe, MonadExceptOf.throw] at h

end Gr

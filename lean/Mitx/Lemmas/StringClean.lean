import Mitx.Model.StringG
/-! `clean_input` only ever touches whitespace and (optionally) case: the non-whitespace characters survive, in order. -/
namespace SG
open Gr (pyIsSpace)

def nonWs (c : Char) : Bool := !pyIsSpace c

theorem ws_space : pyIsSpace ' ' = true := by decide
theorem ws_tab : pyIsSpace '\t' = true := by decide
theorem ws_cr : pyIsSpace '\r' = true := by decide
theorem ws_lf : pyIsSpace '\n' = true := by decide

theorem filter_cons_ws {x : Char} (h : pyIsSpace x = true) (l : List Char) : (x :: l).filter nonWs = l.filter nonWs := by
  simp [List.filter_cons, nonWs, h]

theorem filter_replace1 (a : Char) (ha : pyIsSpace a = true) (l : List Char) : (replace1 a l).filter nonWs = l.filter nonWs := by
  induction l with
  | nil => rfl
  | cons x xs ih =>
    have hcons : replace1 a (x :: xs) = (if x == a then ' ' else x) :: replace1 a xs := rfl
    rw [hcons]
    by_cases hx : x = a
    · subst hx
      simp only [beq_self_eq_true, ↓reduceIte]
      rw [filter_cons_ws ws_space, filter_cons_ws ha, ih]
    · have : (x == a) = false := by simpa using hx
      simp only [this, Bool.false_eq_true, ↓reduceIte, List.filter_cons, ih]

theorem filter_replace2 (a b : Char) (ha : pyIsSpace a = true) (hb : pyIsSpace b = true) :
    ∀ l : List Char, (replace2 a b l).filter nonWs = l.filter nonWs
  | [] => rfl
  | [x] => rfl
  | x :: y :: r => by
    unfold replace2
    split
    · next h =>
      simp only [Bool.and_eq_true, beq_iff_eq] at h
      obtain ⟨rfl, rfl⟩ := h
      rw [filter_cons_ws ws_space, filter_cons_ws ha, filter_cons_ws hb, filter_replace2 x y ha hb r]
    · simp only [List.filter_cons, filter_replace2 a b ha hb (y :: r)]

theorem filter_controls (l : List Char) : (controlsToSpaces l).filter nonWs = l.filter nonWs := by
  unfold controlsToSpaces
  rw [filter_replace1 _ ws_lf, filter_replace1 _ ws_cr, filter_replace2 _ _ ws_lf ws_cr, filter_replace2 _ _ ws_cr ws_lf,
    filter_replace1 _ ws_tab]

theorem filter_stripL (l : List Char) : (stripL l).filter nonWs = l.filter nonWs := by
  unfold stripL
  induction l with
  | nil => rfl
  | cons x xs ih =>
    simp only [List.dropWhile_cons]
    split
    · next h => rw [ih, filter_cons_ws h]
    · rfl

theorem filter_strip (l : List Char) : (strip l).filter nonWs = l.filter nonWs := by
  unfold strip
  rw [List.filter_reverse, filter_stripL, List.filter_reverse, List.reverse_reverse, filter_stripL]

theorem filter_noSpace (l : List Char) : (l.filter (· != ' ')).filter nonWs = l.filter nonWs := by
  induction l with
  | nil => rfl
  | cons x xs ih =>
    by_cases hx : x = ' '
    · subst hx
      rw [filter_cons_ws ws_space]
      simp only [List.filter_cons, bne_self_eq_false, Bool.false_eq_true, ↓reduceIte]; exact ih
    · have : (x != ' ') = true := by simpa using hx
      simp only [List.filter_cons, this, ↓reduceIte, ih]

theorem filter_collapse : ∀ l : List Char, (collapse l).filter nonWs = l.filter nonWs
  | [] => rfl
  | [c] => by simp [collapse]
  | c :: d :: r => by
    by_cases h : c = ' ' ∧ d = ' '
    · obtain ⟨rfl, rfl⟩ := h
      rw [collapse.eq_1, filter_collapse (' ' :: r), filter_cons_ws ws_space, filter_cons_ws ws_space, filter_cons_ws ws_space]
    · have hc : collapse (c :: d :: r) = c :: collapse (d :: r) := by
        rw [collapse.eq_2]
        intro r' h1 h2
        simp at h2
        exact h ⟨h1, h2.1⟩
      rw [hc]; simp only [List.filter_cons, filter_collapse (d :: r)]

theorem filter_map_lc (lc : Char → Char) (hlc : ∀ c, pyIsSpace (lc c) = pyIsSpace c) (l : List Char) :
    (l.map lc).filter nonWs = (l.filter nonWs).map lc := by
  induction l with
  | nil => rfl
  | cons x xs ih =>
    by_cases hx : pyIsSpace x = true
    · rw [List.map_cons, filter_cons_ws (by rw [hlc]; exact hx), filter_cons_ws hx, ih]
    · have hx' : pyIsSpace x = false := by simpa using hx
      have h1 : nonWs x = true := by simp [nonWs, hx']
      have h2 : nonWs (lc x) = true := by simp [nonWs, hlc, hx']
      rw [List.map_cons, List.filter_cons_of_pos h2, List.filter_cons_of_pos h1, List.map_cons, ih]

theorem clean_filter (lc : Char → Char) (hlc : ∀ c, pyIsSpace (lc c) = pyIsSpace c) (f : Flags) (s : List Char) :
    (clean (List.map lc) f s).filter nonWs =
      if f.caseSensitive then s.filter nonWs else (s.filter nonWs).map lc := by
  unfold clean
  simp only
  have s5 : ∀ l : List Char, (if f.cleanSpaces then collapse l else l).filter nonWs = l.filter nonWs := by
    intro l; split; exact filter_collapse l; rfl
  have s4 : ∀ l : List Char, (if f.stripAll then l.filter (· != ' ') else l).filter nonWs = l.filter nonWs := by
    intro l; split; exact filter_noSpace l; rfl
  have s3 : ∀ l : List Char, (if f.strip then strip l else l).filter nonWs = l.filter nonWs := by
    intro l; split; exact filter_strip l; rfl
  rw [s5, s4, s3]
  cases f.caseSensitive
  · simp only [Bool.false_eq_true, ↓reduceIte]; rw [filter_map_lc lc hlc, filter_controls]
  · simp only [↓reduceIte]; rw [filter_controls]

theorem toNat_ofNat_small (m : Nat) (h : m < 0xd800) : (Char.ofNat m).toNat = m := by
  have hv : m.isValidChar := Or.inl h
  simp [Char.ofNat, hv, Char.toNat, Char.ofNatAux]
theorem not_ws_of_range (c : Char) (h : (33 ≤ c.toNat ∧ c.toNat ≤ 0x84) ∨ (0xa1 ≤ c.toNat ∧ c.toNat ≤ 0x167f)) : pyIsSpace c = false := by
  unfold pyIsSpace
  simp only [Bool.or_eq_false_iff, Bool.and_eq_false_iff, decide_eq_false_iff_not, beq_eq_false_iff_ne, ne_eq]
  omega
/-- the executable case folding never creates or destroys whitespace -/
theorem lowerChar_ws (c : Char) : pyIsSpace (lowerChar c) = pyIsSpace c := by
  unfold lowerChar
  simp only
  split
  · next h =>
    have e := toNat_ofNat_small (c.toNat + 32) (by omega)
    rw [not_ws_of_range c (by omega), not_ws_of_range _ (by rw [e]; omega)]
  · split
    · next h =>
      have e := toNat_ofNat_small (c.toNat + 32) (by omega)
      rw [not_ws_of_range c (by omega), not_ws_of_range _ (by rw [e]; omega)]
    · rfl

end SG

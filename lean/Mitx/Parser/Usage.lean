import Mitx.Parser.PA
/-! Side-effecting version of the parser: parse actions add names to a scratch list whenever the
    corresponding element matches — also inside alternatives and repetitions that are later abandoned
    (the scratch is never rolled back, exactly like `MathParser.variables_used` during a pyparsing run). -/
namespace C03

inductive Kind | var | func | suf deriving DecidableEq, Repr
abbrev Sc := List (Kind × String)
abbrev QRes (α : Type) := Option (α × List Tok) × Sc

def addSuf (sc : Sc) : Option String → Sc
  | none => sc
  | some s => sc ++ [(Kind.suf, s)]

mutual
def names : T → Sc
  | .num _ suf => addSuf [] suf
  | .var s => [(Kind.var, s)]
  | .call f args => namesL args ++ [(Kind.func, f)]
  | .arr xs => namesL xs
  | .paren t => names t
  | .power b rest => names b ++ namesP rest
  | .neg t => names t
  | .par a rest => names a ++ namesL rest
  | .prod a rest => names a ++ namesP rest
  | .sum _ a rest => names a ++ namesP rest
def namesL : List T → Sc
  | [] => []
  | t :: ts => names t ++ namesL ts
def namesP : List (Bool × T) → Sc
  | [] => []
  | (_, t) :: ts => names t ++ namesP ts
end

/-- head phrase followed by a repetition -/
def seqQ {α β : Type} (head : QRes T) (tailf : List Tok → Sc → QRes α) (mk : T → α → β) : QRes β :=
  match head with
  | (none, sc1) => (none, sc1)
  | (some (a, r), sc1) =>
    match tailf r sc1 with
    | (none, sc2) => (none, sc2)
    | (some (rest, r'), sc2) => (some (mk a rest, r'), sc2)

/-- one iteration of a ZeroOrMore whose separator has already been consumed; `back` is the input to
    hand back if the operand fails (the scratch is NOT rolled back) -/
def iterQ {γ : Type} (operand : QRes T) (back : List Tok) (tailf : List Tok → Sc → QRes (List γ)) (mk : T → γ) :
    QRes (List γ) :=
  match operand with
  | (none, sc1) => (some ([], back), sc1)
  | (some (t, r1), sc1) =>
    match tailf r1 sc1 with
    | (none, sc2) => (none, sc2)
    | (some (ts, r2), sc2) => (some (mk t :: ts, r2), sc2)

mutual
def qExpr : Nat → List Tok → Sc → QRes T
  | 0, _, sc => (none, sc)
  | f+1, .plus :: r, sc => seqQ (qProduct f r sc) (qSumTail f) (mkSum true)
  | f+1, ts, sc => seqQ (qProduct f ts sc) (qSumTail f) (mkSum false)
def qSumTail : Nat → List Tok → Sc → QRes (List (Bool × T))
  | 0, _, sc => (none, sc)
  | f+1, .plus :: r, sc => iterQ (qProduct f r sc) (.plus :: r) (qSumTail f) (fun t => (false, t))
  | f+1, .minus :: r, sc => iterQ (qProduct f r sc) (.minus :: r) (qSumTail f) (fun t => (true, t))
  | _+1, ts, sc => (some ([], ts), sc)
def qProduct : Nat → List Tok → Sc → QRes T
  | 0, _, sc => (none, sc)
  | f+1, ts, sc => seqQ (qParallel f ts sc) (qProdTail f) mkProd
def qProdTail : Nat → List Tok → Sc → QRes (List (Bool × T))
  | 0, _, sc => (none, sc)
  | f+1, .star :: r, sc => iterQ (qParallel f r sc) (.star :: r) (qProdTail f) (fun t => (false, t))
  | f+1, .slash :: r, sc => iterQ (qParallel f r sc) (.slash :: r) (qProdTail f) (fun t => (true, t))
  | _+1, ts, sc => (some ([], ts), sc)
def qParallel : Nat → List Tok → Sc → QRes T
  | 0, _, sc => (none, sc)
  | f+1, ts, sc => seqQ (qNegation f ts sc) (qParTail f) mkPar
def qParTail : Nat → List Tok → Sc → QRes (List T)
  | 0, _, sc => (none, sc)
  | f+1, .pipe :: .pipe :: r, sc => iterQ (qNegation f r sc) (.pipe :: .pipe :: r) (qParTail f) id
  | _+1, ts, sc => (some ([], ts), sc)
def qNegation : Nat → List Tok → Sc → QRes T
  | 0, _, sc => (none, sc)
  | f+1, .minus :: r, sc =>
    match qPower f r sc with
    | (none, sc1) => (none, sc1)
    | (some (t, r1), sc1) => (some (.neg t, r1), sc1)
  | f+1, ts, sc => qPower f ts sc
def qPower : Nat → List Tok → Sc → QRes T
  | 0, _, sc => (none, sc)
  | f+1, ts, sc => seqQ (qAtom f ts sc) (qPowTail f) mkPower
def qPowTail : Nat → List Tok → Sc → QRes (List (Bool × T))
  | 0, _, sc => (none, sc)
  | f+1, .caret :: .minus :: r, sc => iterQ (qAtom f r sc) (.caret :: .minus :: r) (qPowTail f) (fun t => (true, t))
  | f+1, .caret :: r, sc => iterQ (qAtom f r sc) (.caret :: r) (qPowTail f) (fun t => (false, t))
  | _+1, ts, sc => (some ([], ts), sc)
def qList : Nat → List Tok → Sc → QRes (List T)
  | 0, _, sc => (none, sc)
  | f+1, ts, sc => seqQ (qExpr f ts sc) (qListTail f) (fun a rest => a :: rest)
def qListTail : Nat → List Tok → Sc → QRes (List T)
  | 0, _, sc => (none, sc)
  | f+1, .comma :: r, sc => iterQ (qExpr f r sc) (.comma :: r) (qListTail f) id
  | _+1, ts, sc => (some ([], ts), sc)
def qAtom : Nat → List Tok → Sc → QRes T
  | 0, _, sc => (none, sc)
  | _+1, .num txt suf :: r, sc => (some (.num txt suf, r), addSuf sc suf)
  | f+1, .name s :: .lp :: r, sc =>
    match qList f r sc with
    | (some (args, .rp :: r2), sc1) => (some (.call s args, r2), sc1 ++ [(Kind.func, s)])
    | (_, sc1) => (some (.var s, .lp :: r), sc1 ++ [(Kind.var, s)])
  | _+1, .name s :: r, sc => (some (.var s, r), sc ++ [(Kind.var, s)])
  | f+1, .lp :: r, sc =>
    match qExpr f r sc with
    | (some (t, .rp :: r2), sc1) => (some (.paren t, r2), sc1)
    | (_, sc1) => (none, sc1)
  | f+1, .lb :: r, sc =>
    match qList f r sc with
    | (some (ts, .rb :: r2), sc1) => (some (.arr ts, r2), sc1)
    | (_, sc1) => (none, sc1)
  | _+1, _, sc => (none, sc)
end

/-- what `MathParser.parse` observes: the tree and the three scratch sets after a *successful* parse -/
def parseUsage (ts : List Tok) : Option (T × Sc) :=
  match qExpr (20 * ts.length + 20) ts [] with
  | (some (t, []), sc) => some (t, sc)
  | _ => none

end C03

import Mitx.Parser.Tails
namespace C03
variable {V : Type} (A : Alg V)

theorem evalT_mkSum (a : T) (rest : List (Bool × T)) :
    evalT A (mkSum false a rest) = (evalP A rest).foldl (sumStep A) (evalT A a) := by
  cases rest with
  | nil => simp [mkSum, evalP]
  | cons x xs => simp [mkSum, evalT]
theorem evalT_mkProd (a : T) (rest : List (Bool × T)) :
    evalT A (mkProd a rest) = (evalP A rest).foldl (prodStep A) (evalT A a) := by
  cases rest with
  | nil => simp [mkProd, evalP]
  | cons x xs => simp [mkProd, evalT]
theorem evalT_mkPar (a : T) (rest : List T) (h : rest ≠ []) :
    evalT A (mkPar a rest) = A.par (evalT A a :: evalL A rest) := by
  cases rest with
  | nil => exact (h rfl).elim
  | cons x xs => simp [mkPar, evalT]
theorem evalT_mkPower (a : T) (rest : List (Bool × T)) (r : V) (h : expo A (evalP A rest) = some r) :
    evalT A (mkPower a rest) = A.pow (evalT A a) r := by
  cases rest with
  | nil => simp [evalP, expo] at h
  | cons x xs => simp [mkPower, evalT, h]

theorem sum_compose {L0 : List Tok} {v0 : V} (items : List (Item V)) (hne : L0 ≠ []) (hp : headNot .plus L0)
    (h0 : PA1 A L0 v0) (hi : ∀ i ∈ items, PA1 A i.2.1 i.2.2) :
    PA0 A (L0 ++ sumToks items) ((items.map (fun i => (i.1, i.2.2))).foldl (sumStep A) v0) := by
  obtain ⟨F0, h0⟩ := h0
  obtain ⟨F1, h1⟩ := uniform A (items.map (·.2)) (by
    intro i hi'; obtain ⟨j, hj, rfl⟩ := List.mem_map.mp hi'; exact hi j hj)
  refine ⟨max F0 (F1 + items.length + 1) + 1, fun f hf rest hr => ?_⟩
  obtain ⟨f', rfl⟩ : ∃ f', f = f' + 1 := ⟨f - 1, by omega⟩
  obtain ⟨t, ht, hv⟩ := h0 f' (by omega) (sumToks items ++ rest) (ok1_sumToks items rest hr)
  obtain ⟨ts, hts, hvs⟩ := sumTail_ok A items F1
    (fun i hi' => h1 i.2 (List.mem_map.mpr ⟨i, hi', rfl⟩)) f' (by omega) rest hr
  refine ⟨mkSum false t ts, ?_, by rw [evalT_mkSum, hv, hvs]⟩
  rw [List.append_assoc]
  cases L0 with
  | nil => exact (hne rfl).elim
  | cons t0 L' =>
    cases t0 <;> simp_all [pExpr, headNot]

theorem prod_compose {L0 : List Tok} {v0 : V} (items : List (Item V))
    (h0 : PA2 A L0 v0) (hi : ∀ i ∈ items, PA2 A i.2.1 i.2.2) :
    PA1 A (L0 ++ prodToks items) ((items.map (fun i => (i.1, i.2.2))).foldl (prodStep A) v0) := by
  obtain ⟨F0, h0⟩ := h0
  obtain ⟨F1, h1⟩ := uniform A (items.map (·.2)) (by
    intro i hi'; obtain ⟨j, hj, rfl⟩ := List.mem_map.mp hi'; exact hi j hj)
  refine ⟨max F0 (F1 + items.length + 1) + 1, fun f hf rest hr => ?_⟩
  obtain ⟨f', rfl⟩ : ∃ f', f = f' + 1 := ⟨f - 1, by omega⟩
  obtain ⟨t, ht, hv⟩ := h0 f' (by omega) (prodToks items ++ rest) (ok2_prodToks items rest hr)
  obtain ⟨ts, hts, hvs⟩ := prodTail_ok A items F1
    (fun i hi' => h1 i.2 (List.mem_map.mpr ⟨i, hi', rfl⟩)) f' (by omega) rest hr
  refine ⟨mkProd t ts, ?_, by rw [evalT_mkProd, hv, hvs]⟩
  rw [List.append_assoc]
  simp [pProduct, ht, hts]

theorem par_compose {L0 : List Tok} {v0 : V} (items : List (List Tok × V)) (hne : items ≠ [])
    (h0 : PA3 A L0 v0) (hi : ∀ i ∈ items, PA3 A i.1 i.2) :
    PA2 A (L0 ++ parToks items) (A.par (v0 :: items.map (·.2))) := by
  obtain ⟨F0, h0⟩ := h0
  obtain ⟨F1, h1⟩ := uniform A items hi
  refine ⟨max F0 (F1 + items.length + 1) + 1, fun f hf rest hr => ?_⟩
  obtain ⟨f', rfl⟩ : ∃ f', f = f' + 1 := ⟨f - 1, by omega⟩
  obtain ⟨t, ht, hv⟩ := h0 f' (by omega) (parToks items ++ rest) (ok4_parToks items rest hr)
  obtain ⟨ts, hts, hvs⟩ := parTail_ok A items F1 h1 f' (by omega) rest hr
  have htsne : ts ≠ [] := by
    intro e; subst e; simp [evalL] at hvs; cases items <;> simp_all
  refine ⟨mkPar t ts, ?_, by rw [evalT_mkPar A t ts htsne, hv, hvs]⟩
  rw [List.append_assoc]
  simp [pParallel, ht, hts]

theorem list_compose {La : List Tok} {va : V} (items : List (List Tok × V))
    (ha : PA0 A La va) (hi : ∀ i ∈ items, PA0 A i.1 i.2) :
    ∃ F, ∀ f, F ≤ f → ∀ rest, okL rest → ∃ ts, pList f (La ++ listToks items ++ rest) = some (ts, rest) ∧
      evalL A ts = va :: items.map (·.2) := by
  obtain ⟨F0, h0⟩ := ha
  obtain ⟨F1, h1⟩ := uniform A items hi
  refine ⟨max F0 (F1 + items.length + 1) + 1, fun f hf rest hr => ?_⟩
  obtain ⟨f', rfl⟩ : ∃ f', f = f' + 1 := ⟨f - 1, by omega⟩
  obtain ⟨t, ht, hv⟩ := h0 f' (by omega) (listToks items ++ rest) (ok0_listToks items rest hr)
  obtain ⟨ts, hts, hvs⟩ := listTail_ok A items F1 h1 f' (by omega) rest hr
  refine ⟨t :: ts, ?_, by simp [evalL_cons, hv, hvs]⟩
  rw [List.append_assoc]
  simp [pList, ht, hts]

theorem call_compose (fn : String) {La : List Tok} {va : V} (items : List (List Tok × V))
    (ha : PA0 A La va) (hi : ∀ i ∈ items, PA0 A i.1 i.2) :
    PA5 A (Tok.name fn :: Tok.lp :: La ++ listToks items ++ [Tok.rp]) (A.call fn (va :: items.map (·.2))) := by
  obtain ⟨F, hF⟩ := list_compose A items ha hi
  refine ⟨F + 1, fun f hf rest _ => ?_⟩
  obtain ⟨f', rfl⟩ : ∃ f', f = f' + 1 := ⟨f - 1, by omega⟩
  obtain ⟨ts, hts, hvs⟩ := hF f' (by omega) (Tok.rp :: rest) ⟨by simp [ok0], by simp [headNot]⟩
  refine ⟨.call fn ts, ?_, by simp [evalT, hvs]⟩
  have : Tok.name fn :: Tok.lp :: La ++ listToks items ++ [Tok.rp] ++ rest
      = Tok.name fn :: Tok.lp :: (La ++ listToks items ++ (Tok.rp :: rest)) := by simp
  simp only [List.append_assoc, List.cons_append, List.nil_append] at hts ⊢
  simp [pAtom, hts]

theorem arr_compose {La : List Tok} {va : V} (items : List (List Tok × V))
    (ha : PA0 A La va) (hi : ∀ i ∈ items, PA0 A i.1 i.2) :
    PA5 A (Tok.lb :: La ++ listToks items ++ [Tok.rb]) (A.arr (va :: items.map (·.2))) := by
  obtain ⟨F, hF⟩ := list_compose A items ha hi
  refine ⟨F + 1, fun f hf rest _ => ?_⟩
  obtain ⟨f', rfl⟩ : ∃ f', f = f' + 1 := ⟨f - 1, by omega⟩
  obtain ⟨ts, hts, hvs⟩ := hF f' (by omega) (Tok.rb :: rest) ⟨by simp [ok0], by simp [headNot]⟩
  refine ⟨.arr ts, ?_, by simp [evalT, hvs]⟩
  have : Tok.lb :: La ++ listToks items ++ [Tok.rb] ++ rest
      = Tok.lb :: (La ++ listToks items ++ (Tok.rb :: rest)) := by simp
  simp only [List.append_assoc, List.cons_append, List.nil_append] at hts ⊢
  simp [pAtom, hts]

theorem num_atom (txt : String) (suf : Option String) : PA5 A [Tok.num txt suf] (A.num txt suf) :=
  ⟨1, fun f hf rest _ => by
    obtain ⟨f', rfl⟩ : ∃ f', f = f' + 1 := ⟨f - 1, by omega⟩
    exact ⟨.num txt suf, by simp [pAtom], by simp [evalT]⟩⟩

theorem var_atom (s : String) : PA5 A [Tok.name s] (A.var s) :=
  ⟨1, fun f hf rest hr => by
    obtain ⟨f', rfl⟩ : ∃ f', f = f' + 1 := ⟨f - 1, by omega⟩
    refine ⟨.var s, ?_, by simp [evalT]⟩
    cases rest with
    | nil => simp [pAtom]
    | cons t r => cases t <;> simp_all [pAtom, ok5]⟩

theorem neg_compose {L : List Tok} {v : V} (h : PA4 A L v) : PA3 A (Tok.minus :: L) (A.neg v) := by
  obtain ⟨F, hF⟩ := h
  refine ⟨F + 1, fun f hf rest hr => ?_⟩
  obtain ⟨f', rfl⟩ : ∃ f', f = f' + 1 := ⟨f - 1, by omega⟩
  obtain ⟨t, ht, hv⟩ := hF f' (by omega) rest hr
  exact ⟨.neg t, by simp [pNegation, ht], by simp [evalT, hv]⟩

/-- exponent-position phrases -/
def PowX (L : List Tok) (v : V) : Prop :=
  ∃ F, ∀ f, F ≤ f → ∀ rest, ok4 rest → ∃ items, pPowTail f (Tok.caret :: L ++ rest) = some (items, rest) ∧
    expo A (evalP A items) = some v

theorem powX_atom {L : List Tok} {v : V} (hne : L ≠ []) (hm : headNot .minus L) (h : PA5 A L v) : PowX A L v := by
  obtain ⟨F, hF⟩ := h
  refine ⟨F + 2, fun f hf rest hr => ?_⟩
  obtain ⟨f', rfl⟩ : ∃ f', f = f' + 2 := ⟨f - 2, by omega⟩
  obtain ⟨t, ht, hv⟩ := hF (f' + 1) (by omega) rest (ok5_of_ok4 hr)
  refine ⟨[(false, t)], ?_, by simp [evalP, expo, hv]⟩
  cases L with
  | nil => exact (hne rfl).elim
  | cons t0 L' =>
    cases t0 <;> simp_all [pPowTail, headNot, powTail_nil hr]

theorem powX_negatom {L : List Tok} {v : V} (h : PA5 A L v) : PowX A (Tok.minus :: L) (A.neg v) := by
  obtain ⟨F, hF⟩ := h
  refine ⟨F + 2, fun f hf rest hr => ?_⟩
  obtain ⟨f', rfl⟩ : ∃ f', f = f' + 2 := ⟨f - 2, by omega⟩
  obtain ⟨t, ht, hv⟩ := hF (f' + 1) (by omega) rest (ok5_of_ok4 hr)
  refine ⟨[(true, t)], ?_, by simp [evalP, expo, hv]⟩
  simp [pPowTail, ht, powTail_nil hr]

theorem powX_chain {Lb Le : List Tok} {vb ve : V} (hne : Lb ≠ []) (hm : headNot .minus Lb)
    (hb : PA5 A Lb vb) (he : PowX A Le ve) : PowX A (Lb ++ Tok.caret :: Le) (A.pow vb ve) := by
  obtain ⟨F1, h1⟩ := hb
  obtain ⟨F2, h2⟩ := he
  refine ⟨max F1 F2 + 1, fun f hf rest hr => ?_⟩
  obtain ⟨f', rfl⟩ : ∃ f', f = f' + 1 := ⟨f - 1, by omega⟩
  obtain ⟨t, ht, hv⟩ := h1 f' (by omega) (Tok.caret :: Le ++ rest) (by simp [ok5])
  obtain ⟨items, hit, hiv⟩ := h2 f' (by omega) rest hr
  refine ⟨(false, t) :: items, ?_, by simp [evalP_cons, expo, hiv, hv]⟩
  have e : Tok.caret :: (Lb ++ Tok.caret :: Le) ++ rest = Tok.caret :: (Lb ++ (Tok.caret :: Le ++ rest)) := by simp
  rw [e]
  simp only [List.cons_append] at ht hit ⊢
  cases Lb with
  | nil => exact (hne rfl).elim
  | cons t0 L' =>
    cases t0 <;> simp_all [pPowTail, headNot]

theorem powX_negchain {Lb Le : List Tok} {vb ve : V}
    (hb : PA5 A Lb vb) (he : PowX A Le ve) : PowX A (Tok.minus :: Lb ++ Tok.caret :: Le) (A.neg (A.pow vb ve)) := by
  obtain ⟨F1, h1⟩ := hb
  obtain ⟨F2, h2⟩ := he
  refine ⟨max F1 F2 + 1, fun f hf rest hr => ?_⟩
  obtain ⟨f', rfl⟩ : ∃ f', f = f' + 1 := ⟨f - 1, by omega⟩
  obtain ⟨t, ht, hv⟩ := h1 f' (by omega) (Tok.caret :: Le ++ rest) (by simp [ok5])
  obtain ⟨items, hit, hiv⟩ := h2 f' (by omega) rest hr
  refine ⟨(true, t) :: items, ?_, by simp [evalP_cons, expo, hiv, hv]⟩
  have e : Tok.caret :: (Tok.minus :: Lb ++ Tok.caret :: Le) ++ rest
      = Tok.caret :: Tok.minus :: (Lb ++ (Tok.caret :: Le ++ rest)) := by simp
  rw [e]
  simp only [List.cons_append] at ht hit ⊢
  simp [pPowTail, ht, hit]

theorem pow_compose {Lb Le : List Tok} {vb ve : V} (hb : PA5 A Lb vb) (he : PowX A Le ve) :
    PA4 A (Lb ++ Tok.caret :: Le) (A.pow vb ve) := by
  obtain ⟨F1, h1⟩ := hb
  obtain ⟨F2, h2⟩ := he
  refine ⟨max F1 F2 + 1, fun f hf rest hr => ?_⟩
  obtain ⟨f', rfl⟩ : ∃ f', f = f' + 1 := ⟨f - 1, by omega⟩
  obtain ⟨t, ht, hv⟩ := h1 f' (by omega) (Tok.caret :: Le ++ rest) (by simp [ok5])
  obtain ⟨items, hit, hiv⟩ := h2 f' (by omega) rest hr
  refine ⟨mkPower t items, ?_, by rw [evalT_mkPower A t items ve hiv, hv]⟩
  have e : (Lb ++ Tok.caret :: Le) ++ rest = Lb ++ (Tok.caret :: Le ++ rest) := by simp
  rw [e]
  simp only [List.cons_append] at ht hit ⊢
  simp [pPower, ht, hit]

end C03

import Mitx.Parser.Sem
namespace C03

/-- rendering of an expression: `core` is its unparenthesised form, valid at precedence positions ≤ `lvl`
    (0 sum, 1 product, 2 parallel, 3 negation, 4 power, 5 atom); `expo` is its form in exponent position. -/
structure R where
  core : List Tok
  lvl : Nat
  expo : List Tok

def R.at (r : R) (k : Nat) : List Tok := if k ≤ r.lvl then r.core else Tok.lp :: r.core ++ [Tok.rp]

mutual
def ra : E → R
  | .num txt suf => { core := [.num txt suf], lvl := 5, expo := [.num txt suf] }
  | .var s => { core := [.name s], lvl := 5, expo := [.name s] }
  | .call f a rest =>
    let c := Tok.name f :: Tok.lp :: (ra a).at 0 ++ raArgs rest ++ [Tok.rp]
    { core := c, lvl := 5, expo := c }
  | .arr a rest =>
    let c := Tok.lb :: (ra a).at 0 ++ raArgs rest ++ [Tok.rb]
    { core := c, lvl := 5, expo := c }
  | .neg (.pow b e) =>
    let p := (ra b).at 5 ++ Tok.caret :: (ra e).expo
    { core := Tok.minus :: p, lvl := 3, expo := Tok.minus :: p }
  | .neg e =>
    { core := Tok.minus :: (ra e).at 4, lvl := 3, expo := Tok.minus :: (ra e).at 5 }
  | .pow b e =>
    let p := (ra b).at 5 ++ Tok.caret :: (ra e).expo
    { core := p, lvl := 4, expo := p }
  | .par a b rest =>
    let c := (ra a).at 3 ++ Tok.pipe :: Tok.pipe :: (ra b).at 3 ++ raPars rest
    { core := c, lvl := 2, expo := Tok.lp :: c ++ [Tok.rp] }
  | .mul a b =>
    let c := (ra a).at 1 ++ Tok.star :: (ra b).at 2
    { core := c, lvl := 1, expo := Tok.lp :: c ++ [Tok.rp] }
  | .div a b =>
    let c := (ra a).at 1 ++ Tok.slash :: (ra b).at 2
    { core := c, lvl := 1, expo := Tok.lp :: c ++ [Tok.rp] }
  | .add a b =>
    let c := (ra a).at 0 ++ Tok.plus :: (ra b).at 1
    { core := c, lvl := 0, expo := Tok.lp :: c ++ [Tok.rp] }
  | .sub a b =>
    let c := (ra a).at 0 ++ Tok.minus :: (ra b).at 1
    { core := c, lvl := 0, expo := Tok.lp :: c ++ [Tok.rp] }
def raArgs : List E → List Tok
  | [] => []
  | e :: es => Tok.comma :: (ra e).at 0 ++ raArgs es
def raPars : List E → List Tok
  | [] => []
  | e :: es => Tok.pipe :: Tok.pipe :: (ra e).at 3 ++ raPars es
end

def render (e : E) : List Tok := (ra e).at 0

/-- a symbolic algebra for testing: values are strings -/
def symAlg : Alg String where
  num t s := t ++ (s.getD "")
  var s := s
  call f xs := f ++ "(" ++ ",".intercalate xs ++ ")"
  arr xs := "[" ++ ",".intercalate xs ++ "]"
  add a b := "add(" ++ a ++ "," ++ b ++ ")"
  sub a b := "sub(" ++ a ++ "," ++ b ++ ")"
  mul a b := "mul(" ++ a ++ "," ++ b ++ ")"
  div a b := "div(" ++ a ++ "," ++ b ++ ")"
  pow a b := "pow(" ++ a ++ "," ++ b ++ ")"
  neg a := "neg(" ++ a ++ ")"
  par xs := "par(" ++ ",".intercalate xs ++ ")"

def check (e : E) : Bool × String × String :=
  match parseToks (render e) with
  | some t => (evalT symAlg t == denote symAlg e, evalT symAlg t, denote symAlg e)
  | none => (false, "PARSE FAIL", denote symAlg e)

open E in
#eval check (sub (add (var "a") (neg (var "b"))) (mul (var "c") (pow (neg (var "d")) (neg (pow (var "e") (neg (var "f")))))))
open E in
#eval check (neg (pow (var "a") (pow (add (var "x") (num "1" none)) (neg (neg (var "y"))))))
open E in
#eval check (div (par (var "a") (neg (var "b")) [mul (var "c") (var "d")]) (call "f" (sub (var "x") (var "y")) [arr (var "p") [var "q"]]))
open E in
#eval render (neg (pow (var "a") (neg (pow (var "b") (var "c")))))

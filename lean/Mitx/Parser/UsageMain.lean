import Mitx.Parser.UsageInv
namespace C03

theorem stuckP {f : Nat → List Tok → Sc → QRes (List (Bool × T))} {g : Nat} {r : List Tok} {sc1 : Sc}
    (h : f g r sc1 = (none, sc1) ∨ f g r sc1 = (some ([], r), sc1)) :
    f g r sc1 = (none, sc1) ∨ ∃ e, f g r sc1 = (some (e, r), sc1) ∧ namesP e = [] := by
  rcases h with h | h
  · exact Or.inl h
  · exact Or.inr ⟨[], h, by simp [namesP]⟩
theorem stuckL {f : Nat → List Tok → Sc → QRes (List T)} {g : Nat} {r : List Tok} {sc1 : Sc}
    (h : f g r sc1 = (none, sc1) ∨ f g r sc1 = (some ([], r), sc1)) :
    f g r sc1 = (none, sc1) ∨ ∃ e, f g r sc1 = (some (e, r), sc1) ∧ namesL e = [] := by
  rcases h with h | h
  · exact Or.inl h
  · exact Or.inr ⟨[], h, by simp [namesL]⟩

theorem clean_nil_P (sc : Sc) (ok : List Tok → Prop) (ts : List Tok) :
    InvP ok sc (some (([] : List (Bool × T)), ts), sc) := Or.inl (by simpa [namesP] using Clean.refl sc)
theorem clean_nil_L (sc : Sc) (ok : List Tok → Prop) (ts : List Tok) :
    InvL ok sc (some (([] : List T), ts), sc) := Or.inl (by simpa [namesL] using Clean.refl sc)

theorem inv_succ {f : Nat} (h : Inv f) : Inv (f + 1) := by
  refine ⟨?_, ?_, ?_, ?_, ?_, ?_, ?_, ?_, ?_, ?_, ?_, ?_⟩
  · -- expr
    intro ts sc
    have key : ∀ (l : Bool) ts', InvT ok0 sc (seqQ (qProduct f ts' sc) (qSumTail f) (mkSum l)) := fun l ts' =>
      seqQ_inv (okHi := ok1) (okLo := ok0) (fun _ hh => not_ok0_of_not_ok1 hh) _ _ _ (names_mkSum l) (h.product _ _) h.sumTail
        (fun r sc1 hst => stuckP (sumTail_stuck sc1 hst))
    cases ts with
    | nil => simpa [qExpr] using key false []
    | cons t r => cases t <;> simp only [qExpr] <;> exact key _ _
  · -- sumTail
    intro ts sc
    have key : ∀ (b : Bool) (back r : List Tok), ¬ ok0 back →
        InvP ok0 sc (iterQ (qProduct f r sc) back (qSumTail f) (fun t => (b, t))) := fun b back r hb =>
      iterQ_inv (okHi := ok1) (okLo := ok0) (fun _ hh => not_ok0_of_not_ok1 hh) _ back hb _ _ (by intro t ts; simp [namesP]) (h.product _ _) h.sumTail
        (fun r sc1 hst => sumTail_stuck sc1 hst)
    cases ts with
    | nil => simpa [qSumTail] using clean_nil_P sc ok0 []
    | cons t r =>
      cases t <;> simp only [qSumTail] <;> first
        | exact key _ _ _ (by simp [ok0])
        | exact clean_nil_P sc ok0 _
  · -- product
    intro ts sc
    simp only [qProduct]
    exact seqQ_inv (okHi := ok2) (okLo := ok1) (fun _ hh => not_ok1_of_not_ok2 hh) _ _ _ names_mkProd (h.parallel _ _) h.prodTail
      (fun r sc1 hst => stuckP (prodTail_stuck sc1 hst))
  · -- prodTail
    intro ts sc
    have key : ∀ (b : Bool) (back r : List Tok), ¬ ok1 back →
        InvP ok1 sc (iterQ (qParallel f r sc) back (qProdTail f) (fun t => (b, t))) := fun b back r hb =>
      iterQ_inv (okHi := ok2) (okLo := ok1) (fun _ hh => not_ok1_of_not_ok2 hh) _ back hb _ _ (by intro t ts; simp [namesP]) (h.parallel _ _) h.prodTail
        (fun r sc1 hst => prodTail_stuck sc1 hst)
    cases ts with
    | nil => simpa [qProdTail] using clean_nil_P sc ok1 []
    | cons t r =>
      cases t <;> simp only [qProdTail] <;> first
        | exact key _ _ _ (by simp [ok1])
        | exact clean_nil_P sc ok1 _
  · -- parallel
    intro ts sc
    simp only [qParallel]
    exact seqQ_inv (okHi := ok4) (okLo := ok2) (fun _ hh => not_ok2_of_not_ok4 hh) _ _ _ names_mkPar (h.negation _ _) h.parTail
      (fun r sc1 hst => stuckL (parTail_stuck sc1 hst))
  · -- parTail
    intro ts sc
    have key : ∀ (back r : List Tok), ¬ ok2 back →
        InvL ok2 sc (iterQ (qNegation f r sc) back (qParTail f) id) := fun back r hb =>
      iterQ_inv (okHi := ok4) (okLo := ok2) (fun _ hh => not_ok2_of_not_ok4 hh) _ back hb _ _ (by intro t ts; simp [namesL]) (h.negation _ _) h.parTail
        (fun r sc1 hst => parTail_stuck sc1 hst)
    cases ts with
    | nil => simpa [qParTail] using clean_nil_L sc ok2 []
    | cons t r =>
      cases t <;> try (simp only [qParTail]; exact clean_nil_L sc ok2 _)
      cases r with
      | nil => simpa [qParTail] using clean_nil_L sc ok2 _
      | cons t2 r2 =>
        cases t2 <;> simp only [qParTail] <;> first
          | exact key _ _ (by simp [ok2])
          | exact clean_nil_L sc ok2 _
  · -- negation
    intro ts sc
    have hp := h.power
    cases ts with
    | nil => simpa [qNegation] using hp [] sc
    | cons t r =>
      cases t <;> simp only [qNegation] <;> try exact hp _ sc
      have := hp r sc
      generalize qPower f r sc = res at this ⊢
      rcases res with ⟨_ | ⟨t, r1⟩, sc1⟩
      · simp [InvG]
      · simpa [InvG, names] using this
  · -- power
    intro ts sc
    simp only [qPower]
    exact seqQ_inv (okHi := ok5) (okLo := ok4) (fun _ hh => not_ok4_of_not_ok5 hh) _ _ _ names_mkPower (h.atom _ _) h.powTail
      (fun r sc1 hst => stuckP (powTail_stuck sc1 hst))
  · -- powTail
    intro ts sc
    have key : ∀ (b : Bool) (back r : List Tok), ¬ ok4 back →
        InvP ok4 sc (iterQ (qAtom f r sc) back (qPowTail f) (fun t => (b, t))) := fun b back r hb =>
      iterQ_inv (okHi := ok5) (okLo := ok4) (fun _ hh => not_ok4_of_not_ok5 hh) _ back hb _ _ (by intro t ts; simp [namesP]) (h.atom _ _) h.powTail
        (fun r sc1 hst => powTail_stuck sc1 hst)
    cases ts with
    | nil => simpa [qPowTail] using clean_nil_P sc ok4 []
    | cons t r =>
      cases t <;> try (simp only [qPowTail]; exact clean_nil_P sc ok4 _)
      cases r with
      | nil => simp only [qPowTail]; exact key _ _ _ (by simp [ok4])
      | cons t2 r2 =>
        cases t2 <;> simp only [qPowTail] <;> exact key _ _ _ (by simp [ok4])
  · -- list
    intro ts sc
    simp only [qList]
    exact seqQ_inv (okHi := ok0) (okLo := okL) (fun _ hh => not_okL_of_not_ok0 hh) _ _ _ (by intro a rest; simp [namesL]) (h.expr _ _) h.listTail
      (fun r sc1 hst => stuckL (listTail_stuck sc1 hst))
  · -- listTail
    intro ts sc
    have key : ∀ (back r : List Tok), ¬ okL back →
        InvL okL sc (iterQ (qExpr f r sc) back (qListTail f) id) := fun back r hb =>
      iterQ_inv (okHi := ok0) (okLo := okL) (fun _ hh => not_okL_of_not_ok0 hh) _ back hb _ _ (by intro t ts; simp [namesL]) (h.expr _ _) h.listTail
        (fun r sc1 hst => listTail_stuck sc1 hst)
    cases ts with
    | nil => simpa [qListTail] using clean_nil_L sc okL []
    | cons t r =>
      cases t <;> simp only [qListTail] <;> first
        | exact key _ _ (by simp [okL, headNot])
        | exact clean_nil_L sc okL _
  · -- atom
    intro ts sc
    cases ts with
    | nil => simp [qAtom, InvG]
    | cons t r =>
      cases t with
      | num txt suf =>
        simp only [qAtom, InvG]
        exact Or.inl (by simpa [names] using clean_addSuf sc suf)
      | name s =>
        have hvar : ∀ r', InvT ok5 sc (some (T.var s, r'), sc ++ [(Kind.var, s)]) := fun r' =>
          Or.inl (by simpa [names] using Clean.snoc sc (Kind.var, s))
        cases r with
        | nil => simpa [qAtom] using hvar []
        | cons t2 r2 =>
          cases t2 <;> try (simp only [qAtom]; exact hvar _)
          -- name followed by '(' : function attempt
          simp only [qAtom]
          have hl := h.list r2 sc
          generalize qList f r2 sc = res at hl ⊢
          rcases res with ⟨_ | ⟨args, rest⟩, sc1⟩
          · simp only [InvG]; exact Or.inr (by simp [ok5])
          · cases rest with
            | nil => simp only [InvG]; exact Or.inr (by simp [ok5])
            | cons t3 r3 =>
              cases t3 <;> try (simp only [InvG]; right; simp [ok5]; done)
              simp only [InvG] at hl ⊢
              rcases hl with hc | hst
              · exact Or.inl (by simpa [names] using hc.trans (Clean.snoc sc1 (Kind.func, s)))
              · exact (hst ⟨by simp [ok0], by simp [headNot]⟩).elim
      | lp =>
        simp only [qAtom]
        have he := h.expr r sc
        generalize qExpr f r sc = res at he ⊢
        rcases res with ⟨_ | ⟨t, rest⟩, sc1⟩
        · simp [InvG]
        · cases rest with
          | nil => simp [InvG]
          | cons t3 r3 =>
            cases t3 <;> try (simp [InvG])
            simp only [InvG] at he ⊢
            rcases he with hc | hst
            · exact Or.inl (by simpa [names] using hc)
            · exact (hst (by simp [ok0])).elim
      | lb =>
        simp only [qAtom]
        have hl := h.list r sc
        generalize qList f r sc = res at hl ⊢
        rcases res with ⟨_ | ⟨ts, rest⟩, sc1⟩
        · simp [InvG]
        · cases rest with
          | nil => simp [InvG]
          | cons t3 r3 =>
            cases t3 <;> try (simp [InvG])
            simp only [InvG] at hl ⊢
            rcases hl with hc | hst
            · exact Or.inl (by simpa [names] using hc)
            · exact (hst ⟨by simp [ok0], by simp [headNot]⟩).elim
      | _ => simp [qAtom, InvG]

theorem inv_all : ∀ f, Inv f
  | 0 => inv_zero
  | f+1 => inv_succ (inv_all f)

/-- **Usage exactness.** Whenever a parse succeeds, the scratch sets filled by the parse actions — including
    those fired inside alternatives and repetitions that were later abandoned — contain exactly the names
    occurring in the resulting tree: none missing, none spurious, kinds never confused. -/
theorem usage_exact {ts : List Tok} {t : T} {sc : Sc} (h : parseUsage ts = some (t, sc)) :
    ∀ x, x ∈ sc ↔ x ∈ names t := by
  unfold parseUsage at h
  have hi := (inv_all (20 * ts.length + 20)).expr ts []
  generalize qExpr (20 * ts.length + 20) ts [] = res at h hi
  rcases res with ⟨_ | ⟨t', rest⟩, sc'⟩
  · simp at h
  · cases rest with
    | cons _ _ => simp at h
    | nil =>
      simp at h
      obtain ⟨rfl, rfl⟩ := h
      simp only [InvG] at hi
      rcases hi with hc | hst
      · intro x; simpa using hc x
      · exact (hst (by simp [ok0])).elim

end C03
#print axioms C03.usage_exact

import Mitx.Parser.UsageMain
/-! The side-effecting parser returns the same tree as the pure one. -/
namespace C03

structure Er (f : Nat) : Prop where
  expr : ∀ ts sc, (qExpr f ts sc).1 = pExpr f ts
  sumTail : ∀ ts sc, (qSumTail f ts sc).1 = pSumTail f ts
  product : ∀ ts sc, (qProduct f ts sc).1 = pProduct f ts
  prodTail : ∀ ts sc, (qProdTail f ts sc).1 = pProdTail f ts
  parallel : ∀ ts sc, (qParallel f ts sc).1 = pParallel f ts
  parTail : ∀ ts sc, (qParTail f ts sc).1 = pParTail f ts
  negation : ∀ ts sc, (qNegation f ts sc).1 = pNegation f ts
  power : ∀ ts sc, (qPower f ts sc).1 = pPower f ts
  powTail : ∀ ts sc, (qPowTail f ts sc).1 = pPowTail f ts
  list : ∀ ts sc, (qList f ts sc).1 = pList f ts
  listTail : ∀ ts sc, (qListTail f ts sc).1 = pListTail f ts
  atom : ∀ ts sc, (qAtom f ts sc).1 = pAtom f ts

theorem seqQ_fst {α β : Type} (head : QRes T) (tailf : List Tok → Sc → QRes α) (mk : T → α → β)
    (pt : List Tok → Res α) (ht : ∀ r sc1, (tailf r sc1).1 = pt r) :
    (seqQ head tailf mk).1 = (match head.1 with
      | none => none
      | some (a, r) => match pt r with
        | none => none
        | some (rest, r') => some (mk a rest, r')) := by
  unfold seqQ
  rcases head with ⟨_ | ⟨a, r⟩, sc1⟩
  · rfl
  · dsimp only
    rw [← ht r sc1]
    generalize tailf r sc1 = res
    rcases res with ⟨_ | ⟨rest, r'⟩, sc2⟩ <;> rfl

theorem iterQ_fst {γ : Type} (operand : QRes T) (back : List Tok) (tailf : List Tok → Sc → QRes (List γ)) (mk : T → γ)
    (pt : List Tok → Res (List γ)) (ht : ∀ r sc1, (tailf r sc1).1 = pt r) :
    (iterQ operand back tailf mk).1 = (match operand.1 with
      | none => some ([], back)
      | some (t, r1) => match pt r1 with
        | none => none
        | some (ts, r2) => some (mk t :: ts, r2)) := by
  unfold iterQ
  rcases operand with ⟨_ | ⟨a, r⟩, sc1⟩
  · rfl
  · dsimp only
    rw [← ht r sc1]
    generalize tailf r sc1 = res
    rcases res with ⟨_ | ⟨rest, r'⟩, sc2⟩ <;> rfl

theorem er_zero : Er 0 := by
  constructor <;> intro ts sc <;> simp [qExpr, qSumTail, qProduct, qProdTail, qParallel, qParTail, qNegation,
    qPower, qPowTail, qList, qListTail, qAtom, pExpr, pSumTail, pProduct, pProdTail, pParallel, pParTail,
    pNegation, pPower, pPowTail, pList, pListTail, pAtom]

theorem er_succ {f : Nat} (h : Er f) : Er (f + 1) := by
  refine ⟨?_, ?_, ?_, ?_, ?_, ?_, ?_, ?_, ?_, ?_, ?_, ?_⟩
  · intro ts sc
    cases ts with
    | nil =>
      simp only [qExpr, pExpr]
      (rw [seqQ_fst _ _ _ _ h.sumTail, h.product]; (repeat' split) <;> simp_all)
    | cons t r =>
      cases t <;> simp only [qExpr, pExpr] <;> (rw [seqQ_fst _ _ _ _ h.sumTail, h.product]; (repeat' split) <;> simp_all)
  · intro ts sc
    cases ts with
    | nil => simp [qSumTail, pSumTail]
    | cons t r =>
      cases t <;> simp only [qSumTail, pSumTail] <;> try rfl
      all_goals ((rw [iterQ_fst _ _ _ _ _ h.sumTail, h.product]; (repeat' split) <;> simp_all))
  · intro ts sc
    simp only [qProduct, pProduct]
    (rw [seqQ_fst _ _ _ _ h.prodTail, h.parallel]; (repeat' split) <;> simp_all)
  · intro ts sc
    cases ts with
    | nil => simp [qProdTail, pProdTail]
    | cons t r =>
      cases t <;> simp only [qProdTail, pProdTail] <;> try rfl
      all_goals ((rw [iterQ_fst _ _ _ _ _ h.prodTail, h.parallel]; (repeat' split) <;> simp_all))
  · intro ts sc
    simp only [qParallel, pParallel]
    (rw [seqQ_fst _ _ _ _ h.parTail, h.negation]; (repeat' split) <;> simp_all)
  · intro ts sc
    cases ts with
    | nil => simp [qParTail, pParTail]
    | cons t r =>
      cases t <;> try (simp only [qParTail, pParTail])
      cases r with
      | nil => simp [qParTail, pParTail]
      | cons t2 r2 =>
        cases t2 <;> simp only [qParTail, pParTail] <;> try rfl
        (rw [iterQ_fst _ _ _ _ _ h.parTail, h.negation]; (repeat' split) <;> simp_all)
  · intro ts sc
    cases ts with
    | nil => simpa [qNegation, pNegation] using h.power [] sc
    | cons t r =>
      cases t <;> simp only [qNegation, pNegation] <;> try exact h.power _ sc
      rw [← h.power r sc]
      generalize qPower f r sc = res
      rcases res with ⟨_ | ⟨t, r1⟩, sc1⟩ <;> rfl
  · intro ts sc
    simp only [qPower, pPower]
    (rw [seqQ_fst _ _ _ _ h.powTail, h.atom]; (repeat' split) <;> simp_all)
  · intro ts sc
    cases ts with
    | nil => simp [qPowTail, pPowTail]
    | cons t r =>
      cases t <;> try (simp only [qPowTail, pPowTail])
      cases r with
      | nil => simp only [qPowTail, pPowTail]; (rw [iterQ_fst _ _ _ _ _ h.powTail, h.atom]; (repeat' split) <;> simp_all)
      | cons t2 r2 =>
        cases t2 <;> simp only [qPowTail, pPowTail] <;> (rw [iterQ_fst _ _ _ _ _ h.powTail, h.atom]; (repeat' split) <;> simp_all)
  · intro ts sc
    simp only [qList, pList]
    (rw [seqQ_fst _ _ _ _ h.listTail, h.expr]; (repeat' split) <;> simp_all)
  · intro ts sc
    cases ts with
    | nil => simp [qListTail, pListTail]
    | cons t r =>
      cases t <;> simp only [qListTail, pListTail] <;> try rfl
      (rw [iterQ_fst _ _ _ _ _ h.listTail, h.expr]; (repeat' split) <;> simp_all)
  · intro ts sc
    cases ts with
    | nil => simp [qAtom, pAtom]
    | cons t r =>
      cases t with
      | num txt suf => simp [qAtom, pAtom]
      | name s =>
        cases r with
        | nil => simp [qAtom, pAtom]
        | cons t2 r2 =>
          cases t2 <;> try (simp [qAtom, pAtom])
          rw [← h.list r2 sc]
          generalize qList f r2 sc = res
          rcases res with ⟨_ | ⟨args, rest⟩, sc1⟩
          · rfl
          · cases rest with
            | nil => rfl
            | cons t3 r3 => cases t3 <;> rfl
      | lp =>
        simp only [qAtom, pAtom]
        rw [← h.expr r sc]
        generalize qExpr f r sc = res
        rcases res with ⟨_ | ⟨t, rest⟩, sc1⟩
        · rfl
        · cases rest with
          | nil => rfl
          | cons t3 r3 => cases t3 <;> rfl
      | lb =>
        simp only [qAtom, pAtom]
        rw [← h.list r sc]
        generalize qList f r sc = res
        rcases res with ⟨_ | ⟨ts, rest⟩, sc1⟩
        · rfl
        · cases rest with
          | nil => rfl
          | cons t3 r3 => cases t3 <;> rfl
      | _ => simp [qAtom, pAtom]

theorem er_all : ∀ f, Er f
  | 0 => er_zero
  | f+1 => er_succ (er_all f)

/-- the tree seen together with the usage sets is the tree of the pure parser -/
theorem parseUsage_tree {ts : List Tok} {t : T} {sc : Sc} (h : parseUsage ts = some (t, sc)) : parseToks ts = some t := by
  unfold parseUsage at h
  unfold parseToks
  rw [← (er_all _).expr ts []]
  generalize qExpr (20 * ts.length + 20) ts [] = res at h ⊢
  rcases res with ⟨_ | ⟨t', rest⟩, sc'⟩
  · simp at h
  · cases rest <;> simp_all

end C03
#print axioms C03.parseUsage_tree

/-! Token-level model of the expression grammar: tokens, parse trees (pyparsing's flat operand lists),
    PEG-style fuel parser. -/
namespace C03

inductive Tok
  | num (txt : String) (suf : Option String)
  | name (s : String)
  | plus | minus | star | slash | caret | pipe | lp | rp | lb | rb | comma
  deriving DecidableEq, Repr, Inhabited

/-- parse trees; operand lists are flat, as pyparsing produces them -/
inductive T
  | num (txt : String) (suf : Option String)
  | var (s : String)
  | call (f : String) (args : List T)
  | arr (xs : List T)
  | paren (t : T)
  | power (base : T) (rest : List (Bool × T))        -- Bool: exponent carries a minus sign
  | neg (t : T)
  | par (first : T) (rest : List T)
  | prod (first : T) (rest : List (Bool × T))         -- Bool: true = '/'
  | sum (lead : Bool) (first : T) (rest : List (Bool × T))  -- lead: leading '+'; Bool: true = '-'
  deriving Repr, Inhabited

def mkPower (b : T) (rest : List (Bool × T)) : T := if rest.isEmpty then b else .power b rest
def mkPar (a : T) (rest : List T) : T := if rest.isEmpty then a else .par a rest
def mkProd (a : T) (rest : List (Bool × T)) : T := if rest.isEmpty then a else .prod a rest
def mkSum (lead : Bool) (a : T) (rest : List (Bool × T)) : T :=
  if !lead && rest.isEmpty then a else .sum lead a rest

abbrev Res (α : Type) := Option (α × List Tok)

mutual
def pExpr : Nat → List Tok → Res T
  | 0, _ => none
  | f+1, ts =>
    let (lead, ts1) : Bool × List Tok := match ts with
      | .plus :: r => (true, r)
      | _ => (false, ts)
    match pProduct f ts1 with
    | none => none
    | some (a, r) =>
      match pSumTail f r with
      | none => none
      | some (rest, r') => some (mkSum lead a rest, r')
def pSumTail : Nat → List Tok → Res (List (Bool × T))
  | 0, _ => none
  | f+1, .plus :: r =>
    match pProduct f r with
    | none => some ([], .plus :: r)
    | some (t, r1) => match pSumTail f r1 with
      | none => none
      | some (ts, r2) => some ((false, t) :: ts, r2)
  | f+1, .minus :: r =>
    match pProduct f r with
    | none => some ([], .minus :: r)
    | some (t, r1) => match pSumTail f r1 with
      | none => none
      | some (ts, r2) => some ((true, t) :: ts, r2)
  | _+1, ts => some ([], ts)
def pProduct : Nat → List Tok → Res T
  | 0, _ => none
  | f+1, ts =>
    match pParallel f ts with
    | none => none
    | some (a, r) =>
      match pProdTail f r with
      | none => none
      | some (rest, r') => some (mkProd a rest, r')
def pProdTail : Nat → List Tok → Res (List (Bool × T))
  | 0, _ => none
  | f+1, .star :: r =>
    match pParallel f r with
    | none => some ([], .star :: r)
    | some (t, r1) => match pProdTail f r1 with
      | none => none
      | some (ts, r2) => some ((false, t) :: ts, r2)
  | f+1, .slash :: r =>
    match pParallel f r with
    | none => some ([], .slash :: r)
    | some (t, r1) => match pProdTail f r1 with
      | none => none
      | some (ts, r2) => some ((true, t) :: ts, r2)
  | _+1, ts => some ([], ts)
def pParallel : Nat → List Tok → Res T
  | 0, _ => none
  | f+1, ts =>
    match pNegation f ts with
    | none => none
    | some (a, r) =>
      match pParTail f r with
      | none => none
      | some (rest, r') => some (mkPar a rest, r')
def pParTail : Nat → List Tok → Res (List T)
  | 0, _ => none
  | f+1, .pipe :: .pipe :: r =>
    match pNegation f r with
    | none => some ([], .pipe :: .pipe :: r)
    | some (t, r1) => match pParTail f r1 with
      | none => none
      | some (ts, r2) => some (t :: ts, r2)
  | _+1, ts => some ([], ts)
def pNegation : Nat → List Tok → Res T
  | 0, _ => none
  | f+1, .minus :: r =>
    match pPower f r with
    | none => none
    | some (t, r1) => some (.neg t, r1)
  | f+1, ts => pPower f ts
def pPower : Nat → List Tok → Res T
  | 0, _ => none
  | f+1, ts =>
    match pAtom f ts with
    | none => none
    | some (a, r) =>
      match pPowTail f r with
      | none => none
      | some (rest, r') => some (mkPower a rest, r')
def pPowTail : Nat → List Tok → Res (List (Bool × T))
  | 0, _ => none
  | f+1, .caret :: .minus :: r =>
    match pAtom f r with
    | none => some ([], .caret :: .minus :: r)
    | some (t, r1) => match pPowTail f r1 with
      | none => none
      | some (ts, r2) => some ((true, t) :: ts, r2)
  | f+1, .caret :: r =>
    match pAtom f r with
    | none => some ([], .caret :: r)
    | some (t, r1) => match pPowTail f r1 with
      | none => none
      | some (ts, r2) => some ((false, t) :: ts, r2)
  | _+1, ts => some ([], ts)
def pList : Nat → List Tok → Res (List T)
  | 0, _ => none
  | f+1, ts =>
    match pExpr f ts with
    | none => none
    | some (a, r) =>
      match pListTail f r with
      | none => none
      | some (rest, r') => some (a :: rest, r')
def pListTail : Nat → List Tok → Res (List T)
  | 0, _ => none
  | f+1, .comma :: r =>
    match pExpr f r with
    | none => some ([], .comma :: r)
    | some (t, r1) => match pListTail f r1 with
      | none => none
      | some (ts, r2) => some (t :: ts, r2)
  | _+1, ts => some ([], ts)
def pAtom : Nat → List Tok → Res T
  | 0, _ => none
  | _+1, .num txt suf :: r => some (.num txt suf, r)
  | f+1, .name s :: .lp :: r =>
    -- function first; on failure fall back to variable (which then leaves '(' unconsumed)
    match pList f r with
    | some (args, .rp :: r2) => some (.call s args, r2)
    | _ => some (.var s, .lp :: r)
  | _+1, .name s :: r => some (.var s, r)
  | f+1, .lp :: r =>
    match pExpr f r with
    | some (t, .rp :: r2) => some (.paren t, r2)
    | _ => none
  | f+1, .lb :: r =>
    match pList f r with
    | some (ts, .rb :: r2) => some (.arr ts, r2)
    | _ => none
  | _+1, _ => none
end

def parseToks (ts : List Tok) : Option T :=
  match pExpr (20 * ts.length + 20) ts with
  | some (t, []) => some t
  | _ => none

end C03

import Mitx.Parser.RoundTrip
namespace C03
variable {V : Type} (A : Alg V)

theorem raArgs_eq (rest : List E) : raArgs rest = listToks (rest.map (fun x => ((ra x).at 0, denote A x))) := by
  induction rest with
  | nil => simp [raArgs, listToks]
  | cons x xs ih => simp [raArgs, listToks, ih] at *
theorem raPars_eq (rest : List E) : raPars rest = parToks (rest.map (fun x => ((ra x).at 3, denote A x))) := by
  induction rest with
  | nil => simp [raPars, parToks]
  | cons x xs ih => simp [raPars, parToks, ih] at *
theorem denoteL_eq (rest : List E) : denoteL A rest = rest.map (denote A) := by
  induction rest with
  | nil => simp [denoteL]
  | cons x xs ih => simp [denoteL, ih]

theorem map_snd_at (k : Nat) (rest : List E) :
    List.map (fun x => x.2) (List.map (fun x => ((ra x).at k, denote A x)) rest) = rest.map (denote A) := by
  induction rest with
  | nil => simp
  | cons x xs ih => simp_all

theorem sumToks_append (xs ys : List (Item V)) : sumToks (xs ++ ys) = sumToks xs ++ sumToks ys := by
  simp [sumToks]
theorem prodToks_append (xs ys : List (Item V)) : prodToks (xs ++ ys) = prodToks xs ++ prodToks ys := by
  simp [prodToks]

theorem neg_core (x : E) : (ra (.neg x)).core = Tok.minus :: (ra x).at 4 ∧ (ra (.neg x)).lvl = 3 := by
  cases x <;> simp [ra, R.at]

theorem size_pos (e : E) : 0 < sizeOf e := by cases e <;> simp <;> omega

theorem all_good : ∀ (n : Nat) (e : E), sizeOf e ≤ n → Good A e := by
  intro n
  induction n with
  | zero => intro e h; have := size_pos e; omega
  | succ n ih =>
    intro e he
    have memlt : ∀ {rest : List E} {x : E}, x ∈ rest → sizeOf x < sizeOf rest := fun h => List.sizeOf_lt_of_mem h
    cases e with
    | num txt suf =>
      exact good5 A (by simp [ra]) (by simp [ra]) (by simpa [ra, denote] using num_atom A txt suf)
    | var s =>
      exact good5 A (by simp [ra]) (by simp [ra]) (by simpa [ra, denote] using var_atom A s)
    | call f a rest =>
      simp only [E.call.sizeOf_spec] at he
      have ga := ih a (by omega)
      have gr : ∀ x ∈ rest, Good A x := fun x hx => ih x (by have := memlt hx; omega)
      have h5 := call_compose A f (rest.map (fun x => ((ra x).at 0, denote A x))) ga.g0
        (by intro i hi; obtain ⟨x, hx, rfl⟩ := List.mem_map.mp hi; exact (gr x hx).g0)
      rw [map_snd_at] at h5
      refine good5 A (by simp [ra]) (by simp [ra]) ?_
      simp only [ra, denote, raArgs_eq A, denoteL_eq]
      simpa using h5
    | arr a rest =>
      simp only [E.arr.sizeOf_spec] at he
      have ga := ih a (by omega)
      have gr : ∀ x ∈ rest, Good A x := fun x hx => ih x (by have := memlt hx; omega)
      have h5 := arr_compose A (rest.map (fun x => ((ra x).at 0, denote A x))) ga.g0
        (by intro i hi; obtain ⟨x, hx, rfl⟩ := List.mem_map.mp hi; exact (gr x hx).g0)
      rw [map_snd_at] at h5
      refine good5 A (by simp [ra]) (by simp [ra]) ?_
      simp only [ra, denote, raArgs_eq A, denoteL_eq]
      simpa using h5
    | neg x =>
      simp only [E.neg.sizeOf_spec] at he
      have gx := ih x (by omega)
      obtain ⟨hcore, hlvl⟩ := neg_core x
      have h3 : PA3 A (ra (.neg x)).core (denote A (.neg x)) := by
        rw [hcore]; simpa [denote] using neg_compose A gx.g4
      refine good3 A hlvl h3 ?_
      cases x with
      | pow b e' =>
        simp only [E.pow.sizeOf_spec] at he
        have gb := ih b (by omega)
        have ge := ih e' (by omega)
        simpa [ra, denote] using powX_negchain A gb.g5 ge.gX
      | num txt suf => simpa [ra, denote, R.at] using powX_negatom A gx.g5
      | var s => simpa [ra, denote, R.at] using powX_negatom A gx.g5
      | call f a rest => simpa [ra, denote, R.at] using powX_negatom A gx.g5
      | arr a rest => simpa [ra, denote, R.at] using powX_negatom A gx.g5
      | neg y =>
        have hexp : (ra (E.neg (E.neg y))).expo = Tok.minus :: (ra (E.neg y)).at 5 := rfl
        rw [hexp]; simpa [denote] using powX_negatom A gx.g5
      | par a b rest =>
        have hexp : (ra (E.neg (E.par a b rest))).expo = Tok.minus :: (ra (E.par a b rest)).at 5 := rfl
        rw [hexp]; simpa [denote] using powX_negatom A gx.g5
      | mul a b =>
        have hexp : (ra (E.neg (E.mul a b))).expo = Tok.minus :: (ra (E.mul a b)).at 5 := rfl
        rw [hexp]; simpa [denote] using powX_negatom A gx.g5
      | div a b =>
        have hexp : (ra (E.neg (E.div a b))).expo = Tok.minus :: (ra (E.div a b)).at 5 := rfl
        rw [hexp]; simpa [denote] using powX_negatom A gx.g5
      | add a b =>
        have hexp : (ra (E.neg (E.add a b))).expo = Tok.minus :: (ra (E.add a b)).at 5 := rfl
        rw [hexp]; simpa [denote] using powX_negatom A gx.g5
      | sub a b =>
        have hexp : (ra (E.neg (E.sub a b))).expo = Tok.minus :: (ra (E.sub a b)).at 5 := rfl
        rw [hexp]; simpa [denote] using powX_negatom A gx.g5
    | pow b e' =>
      simp only [E.pow.sizeOf_spec] at he
      have gb := ih b (by omega)
      have ge := ih e' (by omega)
      have hb := headOK b 5
      exact good4 A (by simp [ra]) (by simpa [ra, denote] using pow_compose A gb.g5 ge.gX)
        (by simpa [ra, denote] using powX_chain A hb.ne (hb.noMinus (by omega)) gb.g5 ge.gX)
    | par a b rest =>
      simp only [E.par.sizeOf_spec] at he
      have ga := ih a (by omega)
      have gb := ih b (by omega)
      have gr : ∀ x ∈ rest, Good A x := fun x hx => ih x (by have := memlt hx; omega)
      have h2 := par_compose A (((ra b).at 3, denote A b) :: rest.map (fun x => ((ra x).at 3, denote A x))) (by simp) ga.g3
        (by
          intro i hi
          rcases List.mem_cons.mp hi with rfl | hi
          · exact gb.g3
          · obtain ⟨x, hx, rfl⟩ := List.mem_map.mp hi; exact (gr x hx).g3)
      simp only [List.map_cons] at h2
      rw [map_snd_at] at h2
      refine good2 A (by simp [ra]) (by simp [ra]) ?_
      simp only [ra, denote, raPars_eq A, denoteL_eq]
      simpa [parToks] using h2
    | mul a b =>
      simp only [E.mul.sizeOf_spec] at he
      have ga := ih a (by omega)
      have gb := ih b (by omega)
      obtain ⟨L0, v0, items, hL, hp0, hpi, hval⟩ := ga.prodForm
      have hform : ∃ (L0 : List Tok) (v0 : V) (items : List (Item V)), (ra (.mul a b)).core = L0 ++ prodToks items ∧ PA2 A L0 v0 ∧
          (∀ i ∈ items, PA2 A i.2.1 i.2.2) ∧
          denote A (.mul a b) = (items.map (fun i => (i.1, i.2.2))).foldl (prodStep A) v0 := by
        refine ⟨L0, v0, items ++ [(false, (ra b).at 2, denote A b)], ?_, hp0, ?_, ?_⟩
        · simp [ra, hL, prodToks_append, prodToks]
        · intro i hi
          rcases List.mem_append.mp hi with hi | hi
          · exact hpi i hi
          · simp at hi; subst hi; exact gb.g2
        · simp [denote, hval, prodStep]
      obtain ⟨L0', v0', items', hL', hp0', hpi', hval'⟩ := hform
      exact good1 A (by simp [ra]) (by simp [ra]) (by rw [hL', hval']; exact prod_compose A items' hp0' hpi')
        ⟨L0', v0', items', hL', hp0', hpi', hval'⟩
    | div a b =>
      simp only [E.div.sizeOf_spec] at he
      have ga := ih a (by omega)
      have gb := ih b (by omega)
      obtain ⟨L0, v0, items, hL, hp0, hpi, hval⟩ := ga.prodForm
      have hform : ∃ (L0 : List Tok) (v0 : V) (items : List (Item V)), (ra (.div a b)).core = L0 ++ prodToks items ∧ PA2 A L0 v0 ∧
          (∀ i ∈ items, PA2 A i.2.1 i.2.2) ∧
          denote A (.div a b) = (items.map (fun i => (i.1, i.2.2))).foldl (prodStep A) v0 := by
        refine ⟨L0, v0, items ++ [(true, (ra b).at 2, denote A b)], ?_, hp0, ?_, ?_⟩
        · simp [ra, hL, prodToks_append, prodToks]
        · intro i hi
          rcases List.mem_append.mp hi with hi | hi
          · exact hpi i hi
          · simp at hi; subst hi; exact gb.g2
        · simp [denote, hval, prodStep]
      obtain ⟨L0', v0', items', hL', hp0', hpi', hval'⟩ := hform
      exact good1 A (by simp [ra]) (by simp [ra]) (by rw [hL', hval']; exact prod_compose A items' hp0' hpi')
        ⟨L0', v0', items', hL', hp0', hpi', hval'⟩
    | add a b =>
      simp only [E.add.sizeOf_spec] at he
      have ga := ih a (by omega)
      have gb := ih b (by omega)
      obtain ⟨L0, v0, items, hL, hp0, hpi, hval, hne, hpl⟩ := ga.sumForm
      have hform : ∃ (L0 : List Tok) (v0 : V) (items : List (Item V)), (ra (.add a b)).core = L0 ++ sumToks items ∧ PA1 A L0 v0 ∧
          (∀ i ∈ items, PA1 A i.2.1 i.2.2) ∧
          denote A (.add a b) = (items.map (fun i => (i.1, i.2.2))).foldl (sumStep A) v0 ∧ L0 ≠ [] ∧ headNot .plus L0 := by
        refine ⟨L0, v0, items ++ [(false, (ra b).at 1, denote A b)], ?_, hp0, ?_, ?_, hne, hpl⟩
        · simp [ra, hL, sumToks_append, sumToks]
        · intro i hi
          rcases List.mem_append.mp hi with hi | hi
          · exact hpi i hi
          · simp at hi; subst hi; exact gb.g1
        · simp [denote, hval, sumStep]
      obtain ⟨L0', v0', items', hL', hp0', hpi', hval', hne', hpl'⟩ := hform
      exact good0 A (by simp [ra]) (by simp [ra]) (by rw [hL', hval']; exact sum_compose A items' hne' hpl' hp0' hpi')
        ⟨L0', v0', items', hL', hp0', hpi', hval', hne', hpl'⟩
    | sub a b =>
      simp only [E.sub.sizeOf_spec] at he
      have ga := ih a (by omega)
      have gb := ih b (by omega)
      obtain ⟨L0, v0, items, hL, hp0, hpi, hval, hne, hpl⟩ := ga.sumForm
      have hform : ∃ (L0 : List Tok) (v0 : V) (items : List (Item V)), (ra (.sub a b)).core = L0 ++ sumToks items ∧ PA1 A L0 v0 ∧
          (∀ i ∈ items, PA1 A i.2.1 i.2.2) ∧
          denote A (.sub a b) = (items.map (fun i => (i.1, i.2.2))).foldl (sumStep A) v0 ∧ L0 ≠ [] ∧ headNot .plus L0 := by
        refine ⟨L0, v0, items ++ [(true, (ra b).at 1, denote A b)], ?_, hp0, ?_, ?_, hne, hpl⟩
        · simp [ra, hL, sumToks_append, sumToks]
        · intro i hi
          rcases List.mem_append.mp hi with hi | hi
          · exact hpi i hi
          · simp at hi; subst hi; exact gb.g1
        · simp [denote, hval, sumStep]
      obtain ⟨L0', v0', items', hL', hp0', hpi', hval', hne', hpl'⟩ := hform
      exact good0 A (by simp [ra]) (by simp [ra]) (by rw [hL', hval']; exact sum_compose A items' hne' hpl' hp0' hpi')
        ⟨L0', v0', items', hL', hp0', hpi', hval', hne', hpl'⟩

/-- **Round trip.** For every expression tree `e` and every interpretation of the operators, parsing the
    minimally parenthesised token rendering of `e` succeeds (given enough fuel) and the parse tree
    evaluates to the mathematical value of `e`. -/
theorem parse_render (e : E) :
    ∃ F, ∀ f, F ≤ f → ∃ t, pExpr f (render e) = some (t, []) ∧ evalT A t = denote A e := by
  obtain ⟨F, hF⟩ := (all_good A (sizeOf e) e (Nat.le_refl _)).g0
  exact ⟨F, fun f hf => by simpa [render] using hF f hf [] (by simp [ok0])⟩

end C03
#print axioms C03.parse_render

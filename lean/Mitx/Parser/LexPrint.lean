import Mitx.Parser.Lex
import Mitx.Parser.Render
/-! # Printing a token list and lexing it back

The round-trip theorems of `RoundTripMain` start from the token list `render e`. This file closes the gap to STRINGS for
expressions whose leaves are plain: numbers that are digit strings and names made of a letter followed by letters and digits.
`printToks` writes the tokens one after the other (no separators — the model lexer, like the library, drops spaces first);
`lex_print` shows the lexer recovers exactly the token list, provided no two operands are adjacent — which `render` guarantees. -/
namespace C03

def Tok.text : Tok → List Char
  | .num txt none => txt.toList
  | .num txt (some s) => txt.toList ++ s.toList
  | .name s => s.toList
  | .plus => ['+'] | .minus => ['-'] | .star => ['*'] | .slash => ['/'] | .caret => ['^'] | .pipe => ['|']
  | .lp => ['('] | .rp => [')'] | .lb => ['['] | .rb => [']'] | .comma => [',']

def printToks : List Tok → List Char
  | [] => []
  | t :: r => t.text ++ printToks r

def operand : Tok → Bool
  | .num _ _ => true | .name _ => true | _ => false

/-- plain leaves: digit strings without suffix; a letter followed by letters and digits -/
def simpleTok : Tok → Bool
  | .num txt none => !txt.toList.isEmpty && txt.toList.all isDigit
  | .num _ (some _) => false
  | .name s => match s.toList with
    | c :: w => isAlpha c && w.all isAlnum
    | [] => false
  | _ => true

/-- no two operands next to each other -/
def sep : List Tok → Bool
  | a :: b :: r => !(operand a && operand b) && sep (b :: r)
  | _ => true

def opCh (c : Char) : Bool := c == '+' || c == '-' || c == '*' || c == '/' || c == '^' || c == '|' || c == '(' || c == ')' || c == '[' || c == ']' || c == ','

/-- the rest of the input after an operand: nothing, or an operator / bracket / comma -/
def delim : List Char → Bool
  | [] => true
  | c :: _ => opCh c

/-! ### characters -/

theorem alpha_not_digit (c : Char) (h : isAlpha c = true) : isDigit c = false := by
  simp only [isAlpha, isDigit, Bool.or_eq_true, Bool.and_eq_true, decide_eq_true_eq, Bool.and_eq_false_imp, decide_eq_false_iff_not,
    Char.le_def, UInt32.le_iff_toNat_le] at h ⊢
  have e1 : ('a' : Char).val.toNat = 97 := by decide
  have e2 : ('9' : Char).val.toNat = 57 := by decide
  have e3 : ('A' : Char).val.toNat = 65 := by decide
  have e4 : ('0' : Char).val.toNat = 48 := by decide
  omega

theorem digit_not_ws (c : Char) (h : isDigit c = true) : isWs c = false := by
  simp only [isWs, Bool.or_eq_false_iff, beq_eq_false_iff_ne, ne_eq]
  refine ⟨⟨⟨?_, ?_⟩, ?_⟩, ?_⟩ <;> (rintro rfl; revert h; decide)

theorem alpha_not_ws (c : Char) (h : isAlpha c = true) : isWs c = false := by
  simp only [isWs, Bool.or_eq_false_iff, beq_eq_false_iff_ne, ne_eq]
  refine ⟨⟨⟨?_, ?_⟩, ?_⟩, ?_⟩ <;> (rintro rfl; revert h; decide)

theorem alpha_not_dot (c : Char) (h : isAlpha c = true) : (c == '.') = false := by
  simp only [beq_eq_false_iff_ne, ne_eq]; rintro rfl; revert h; decide

/-- everything the lexer asks about an operator character -/
theorem opCh_facts (c : Char) (h : opCh c = true) :
    isWs c = false ∧ isDigit c = false ∧ isAlpha c = false ∧ (c == '.') = false ∧ (c == 'e') = false ∧ (c == 'E') = false ∧
    (c == '_') = false ∧ (c == '\'') = false ∧ (c == '%') = false ∧ (c == '{') = false := by
  simp only [opCh, Bool.or_eq_true, beq_iff_eq] at h
  rcases h with ((((((((((rfl | rfl) | rfl) | rfl) | rfl) | rfl) | rfl) | rfl) | rfl) | rfl) | rfl) <;> decide

/-! ### `takeWhile` up to a delimiter -/

theorem takeWhile_all (p : Char → Bool) (w r : List Char) (hw : w.all p = true) (hr : r = [] ∨ ∃ c r', r = c :: r' ∧ p c = false) :
    takeWhile p (w ++ r) = (w, r) := by
  induction w with
  | nil =>
    rcases hr with rfl | ⟨c, r', rfl, hc⟩
    · rfl
    · simp [takeWhile, hc]
  | cons a as ih =>
    simp only [List.all_cons, Bool.and_eq_true] at hw
    simp only [List.cons_append, takeWhile, hw.1, ↓reduceIte, ih hw.2]

theorem delim_cases (r : List Char) (h : delim r = true) : r = [] ∨ ∃ c r', r = c :: r' ∧ opCh c = true := by
  cases r with
  | nil => exact Or.inl rfl
  | cons c r' => exact Or.inr ⟨c, r', rfl, h⟩

theorem delim_stop (p : Char → Bool) (r : List Char) (h : delim r = true) (hp : ∀ c, opCh c = true → p c = false) :
    r = [] ∨ ∃ c r', r = c :: r' ∧ p c = false := by
  rcases delim_cases r h with rfl | ⟨c, r', rfl, hc⟩
  · exact Or.inl rfl
  · exact Or.inr ⟨c, r', rfl, hp c hc⟩

theorem skipWs_delim (r : List Char) (h : delim r = true) : skipWs r = r := by
  rcases delim_cases r h with rfl | ⟨c, r', rfl, hc⟩
  · rfl
  · simp [skipWs, (opCh_facts c hc).1]

/-! ### one token at a time -/

theorem word1_all (p : Char → Bool) (w r : List Char) (hne : w ≠ []) (hw : w.all p = true)
    (hr : r = [] ∨ ∃ c r', r = c :: r' ∧ p c = false) : word1 p (w ++ r) = some (w, r) := by
  unfold word1
  rw [takeWhile_all p w r hw hr]
  cases w with
  | nil => exact absurd rfl hne
  | cons a as => simp

theorem word1_none (p : Char → Bool) (r : List Char) (hr : r = [] ∨ ∃ c r', r = c :: r' ∧ p c = false) : word1 p r = none := by
  unfold word1
  rcases hr with rfl | ⟨c, r', rfl, hc⟩
  · simp [takeWhile]
  · simp [takeWhile, hc]

theorem lexMantissa_digits (ds r : List Char) (hne : ds ≠ []) (hd : ds.all isDigit = true) (hr : delim r = true) :
    lexMantissa (ds ++ r) = some (ds, r) := by
  unfold lexMantissa
  rw [word1_all isDigit ds r hne hd (delim_stop _ r hr (fun c hc => (opCh_facts c hc).2.1))]
  simp only
  rcases delim_cases r hr with rfl | ⟨c, r', rfl, hc⟩
  · rfl
  · have hdot := (opCh_facts c hc).2.2.2.1
    split
    · rename_i r1 heq
      simp only [List.cons.injEq] at heq
      rw [heq.1] at hdot; simp at hdot
    · rfl

theorem lexNumText_digits (ds r : List Char) (hne : ds ≠ []) (hd : ds.all isDigit = true) (hr : delim r = true) :
    lexNumText (ds ++ r) = some (ds, r) := by
  unfold lexNumText
  rw [lexMantissa_digits ds r hne hd hr]
  simp only
  rcases delim_cases r hr with rfl | ⟨c, r', rfl, hc⟩
  · rfl
  · have f := opCh_facts c hc
    simp [f.2.2.2.2.1, f.2.2.2.2.2.1]

/-- printed characters never include a brace -/
def noBrace (r : List Char) : Prop := ∀ c ∈ r, (c == '{') = false

theorem lexIndex_none (o : Char) (r : List Char) (hb : noBrace r) : lexIndex o r = none := by
  unfold lexIndex
  split
  · rename_i o' rest
    have := hb '{' (by simp)
    simp at this
  · rfl

theorem lexIndices_none (r : List Char) (hb : noBrace r) : lexIndices r = ([], r) := by
  unfold lexIndices
  simp [lexIndex_none _ r hb, orSkip]

theorem lexName_plain (c : Char) (w r : List Char) (hc : isAlpha c = true) (hw : w.all isAlnum = true) (hr : delim r = true) (hb : noBrace r) :
    lexName (c :: w ++ r) = (c :: w, r) := by
  unfold lexName
  have hall : (c :: w).all isAlnum = true := by simp [isAlnum, hc, hw]
  have htw : takeWhile isAlnum (c :: w ++ r) = (c :: w, r) := by
    have := takeWhile_all isAlnum (c :: w) r hall (delim_stop _ r hr (fun d hd => by
      have f := opCh_facts d hd; simp [isAlnum, f.2.1, f.2.2.1]))
    simpa using this
  rw [htw]
  simp only
  have hmid : lexNameMid r = ([], r) := by
    unfold lexNameMid
    rw [word1_none _ r (delim_stop _ r hr (fun d hd => by
      have f := opCh_facts d hd; simp [isAlnum, f.2.1, f.2.2.1, f.2.2.2.2.2.2.1]))]
    exact lexIndices_none r hb
  rw [hmid]
  simp only
  have hpr : takeWhile (· == '\'') r = ([], r) := by
    have := takeWhile_all (· == '\'') [] r (by simp) (delim_stop _ r hr (fun d hd => (opCh_facts d hd).2.2.2.2.2.2.2.1))
    simpa using this
  rw [hpr]
  simp


/-! ### the whole token list -/

theorem sep_tail (a : Tok) (l : List Tok) (h : sep (a :: l) = true) : sep l = true := by
  cases l with
  | nil => rfl
  | cons b r => simp only [sep, Bool.and_eq_true] at h; exact h.2

theorem simple_op_text (t : Tok) (hs : simpleTok t = true) (ho : operand t = false) : ∃ c, t.text = [c] ∧ opCh c = true ∧ opTok c = some t := by
  cases t <;> simp [operand] at ho <;> first
    | exact ⟨'+', rfl, by decide, by decide⟩
    | exact ⟨'-', rfl, by decide, by decide⟩
    | exact ⟨'*', rfl, by decide, by decide⟩
    | exact ⟨'/', rfl, by decide, by decide⟩
    | exact ⟨'^', rfl, by decide, by decide⟩
    | exact ⟨'|', rfl, by decide, by decide⟩
    | exact ⟨'(', rfl, by decide, by decide⟩
    | exact ⟨')', rfl, by decide, by decide⟩
    | exact ⟨'[', rfl, by decide, by decide⟩
    | exact ⟨']', rfl, by decide, by decide⟩
    | exact ⟨',', rfl, by decide, by decide⟩

theorem print_delim (t : Tok) (l : List Tok) (hs : l.all simpleTok = true) (hsep : sep (t :: l) = true) (ht : operand t = true) :
    delim (printToks l) = true := by
  cases l with
  | nil => rfl
  | cons b r =>
    simp only [sep, ht, Bool.true_and, Bool.and_eq_true, Bool.not_eq_eq_eq_not, Bool.not_true] at hsep
    simp only [List.all_cons, Bool.and_eq_true] at hs
    obtain ⟨c, hc, hop, _⟩ := simple_op_text b hs.1 hsep.1
    simp [printToks, hc, delim, hop]

theorem simple_chars (t : Tok) (hs : simpleTok t = true) : ∀ c ∈ t.text, (c == '{') = false := by
  intro c hc
  cases t with
  | num txt suf =>
    cases suf with
    | some _ => simp [simpleTok] at hs
    | none =>
      simp only [simpleTok, Bool.and_eq_true, List.all_eq_true] at hs
      have := hs.2 c hc
      simp only [beq_eq_false_iff_ne, ne_eq]; rintro rfl; revert this; decide
  | name s =>
    simp only [Tok.text] at hc
    simp only [simpleTok] at hs
    cases hl : s.toList with
    | nil => rw [hl] at hc; cases hc
    | cons a w =>
      rw [hl] at hs hc
      simp only [Bool.and_eq_true, List.all_eq_true] at hs
      simp only [beq_eq_false_iff_ne, ne_eq]; rintro rfl
      rcases List.mem_cons.mp hc with h | h
      · have h1 := hs.1; rw [← h] at h1; revert h1; decide
      · have := hs.2 _ h; revert this; decide
  | _ => simp only [Tok.text, List.mem_singleton] at hc; subst hc; decide

theorem print_noBrace (l : List Tok) (hs : l.all simpleTok = true) : noBrace (printToks l) := by
  induction l with
  | nil => intro c hc; cases hc
  | cons t r ih =>
    simp only [List.all_cons, Bool.and_eq_true] at hs
    intro c hc
    simp only [printToks, List.mem_append] at hc
    rcases hc with hc | hc
    · exact simple_chars t hs.1 c hc
    · exact ih hs.2 c hc

/-- **Lexing what was printed gives back the tokens** (plain leaves, no adjacent operands, enough fuel) -/
theorem lexAux_print : ∀ (l : List Tok) (f : Nat), l.all simpleTok = true → sep l = true → l.length < f →
    lexAux f (printToks l) = some l := by
  intro l
  induction l with
  | nil =>
    intro f _ _ hf
    cases f with
    | zero => omega
    | succ f => simp [printToks, lexAux, skipWs]
  | cons t rest ih =>
    intro f hs hsep hf
    cases f with
    | zero => omega
    | succ f =>
      have hs' := hs
      simp only [List.all_cons, Bool.and_eq_true] at hs'
      have hrest := ih f hs'.2 (sep_tail t rest hsep) (by simp only [List.length_cons] at hf; omega)
      by_cases hop : operand t = true
      · have hdel := print_delim t rest hs'.2 hsep hop
        have hnb := print_noBrace rest hs'.2
        cases t with
        | num txt suf =>
          cases suf with
          | some _ => simp [simpleTok] at hs'
          | none =>
            have hst := hs'.1
            simp only [simpleTok, Bool.and_eq_true, Bool.not_eq_eq_eq_not, Bool.not_true] at hst
            cases hl : txt.toList with
            | nil => rw [hl] at hst; simp at hst
            | cons d ds =>
              rw [hl] at hst
              have hd : isDigit d = true := by have := hst.2; simp only [List.all_cons, Bool.and_eq_true] at this; exact this.1
              have hnum := lexNumText_digits (d :: ds) (printToks rest) (by simp) hst.2 hdel
              have hsuf : word1 (fun c => isAlpha c || c == '%') (skipWs (printToks rest)) = none := by
                rw [skipWs_delim _ hdel]
                exact word1_none _ _ (delim_stop _ _ hdel (fun c hc => by have f := opCh_facts c hc; simp [f.2.2.1, f.2.2.2.2.2.2.2.2.1]))
              have htxt : String.ofList (d :: ds) = txt := by rw [← hl]; simp
              simp only [printToks, Tok.text, hl, List.cons_append, lexAux, skipWs, digit_not_ws d hd, Bool.false_eq_true, ↓reduceIte, hd, Bool.true_or]
              have hnum' : lexNumText (d :: (ds ++ printToks rest)) = some (d :: ds, printToks rest) := by simpa using hnum
              rw [hnum']
              simp only [hsuf, hrest, Option.map_some, htxt]
        | name s =>
          have hst := hs'.1
          simp only [simpleTok] at hst
          cases hl : s.toList with
          | nil => rw [hl] at hst; simp at hst
          | cons c w =>
            rw [hl] at hst
            simp only [Bool.and_eq_true] at hst
            have hnm := lexName_plain c w (printToks rest) hst.1 hst.2 hdel hnb
            have htxt : String.ofList (c :: w) = s := by rw [← hl]; simp
            simp only [printToks, Tok.text, hl, List.cons_append, lexAux, skipWs, alpha_not_ws c hst.1, Bool.false_eq_true, ↓reduceIte,
              alpha_not_digit c hst.1, alpha_not_dot c hst.1, Bool.or_self, hst.1]
            have hnm' : lexName (c :: (w ++ printToks rest)) = (c :: w, printToks rest) := by simpa using hnm
            rw [hnm']
            simp only [hrest, Option.map_some, htxt]
        | _ => simp [operand] at hop
      · have hop' : operand t = false := by simpa using hop
        obtain ⟨c, hc, hch, htok⟩ := simple_op_text t hs'.1 hop'
        have f := opCh_facts c hch
        simp only [printToks, hc, List.cons_append, List.nil_append, lexAux, skipWs, f.1, Bool.false_eq_true, ↓reduceIte, f.2.1, f.2.2.2.1,
          Bool.or_self, f.2.2.1, htok, hrest, Option.map_some]


theorem simple_chars_space (t : Tok) (hs : simpleTok t = true) : ∀ c ∈ t.text, (c != ' ') = true := by
  intro c hc
  cases t with
  | num txt suf =>
    cases suf with
    | some _ => simp [simpleTok] at hs
    | none =>
      simp only [simpleTok, Bool.and_eq_true, List.all_eq_true] at hs
      have := hs.2 c hc
      simp only [bne_iff_ne, ne_eq]; rintro rfl; revert this; decide
  | name s =>
    simp only [Tok.text] at hc
    simp only [simpleTok] at hs
    cases hl : s.toList with
    | nil => rw [hl] at hc; cases hc
    | cons a w =>
      rw [hl] at hs hc
      simp only [Bool.and_eq_true, List.all_eq_true] at hs
      simp only [bne_iff_ne, ne_eq]; rintro rfl
      rcases List.mem_cons.mp hc with h | h
      · have h1 := hs.1; rw [← h] at h1; revert h1; decide
      · have := hs.2 _ h; revert this; decide
  | _ => simp only [Tok.text, List.mem_singleton] at hc; subst hc; decide

theorem simple_text_ne (t : Tok) (hs : simpleTok t = true) : t.text ≠ [] := by
  cases t with
  | num txt suf =>
    cases suf with
    | some _ => simp [simpleTok] at hs
    | none =>
      simp only [simpleTok, Bool.and_eq_true, Bool.not_eq_eq_eq_not, Bool.not_true, List.isEmpty_eq_false_iff] at hs
      exact hs.1
  | name s =>
    simp only [simpleTok] at hs
    simp only [Tok.text]
    cases hl : s.toList with
    | nil => rw [hl] at hs; simp at hs
    | cons a w => simp
  | _ => simp [Tok.text]

theorem print_filter (l : List Tok) (hs : l.all simpleTok = true) : (printToks l).filter (· != ' ') = printToks l := by
  induction l with
  | nil => rfl
  | cons t r ih =>
    simp only [List.all_cons, Bool.and_eq_true] at hs
    simp only [printToks, List.filter_append, ih hs.2]
    congr 1
    exact List.filter_eq_self.mpr (simple_chars_space t hs.1)

theorem print_length (l : List Tok) (hs : l.all simpleTok = true) : l.length ≤ (printToks l).length := by
  induction l with
  | nil => simp
  | cons t r ih =>
    simp only [List.all_cons, Bool.and_eq_true] at hs
    have := ih hs.2
    have h1 : 0 < t.text.length := List.length_pos_iff.mpr (simple_text_ne t hs.1)
    simp only [printToks, List.length_cons, List.length_append]; omega

/-- the text of a token list -/
def printStr (l : List Tok) : String := String.ofList (printToks l)

/-- **`lex` inverts printing** on token lists with plain leaves and no adjacent operands -/
theorem lex_print (l : List Tok) (hs : l.all simpleTok = true) (hsep : sep l = true) : lex (printStr l) = some l := by
  unfold lex printStr
  simp only [String.toList_ofList, print_filter l hs]
  exact lexAux_print l _ hs hsep (by have := print_length l hs; omega)

/-! ### `render` produces such token lists -/

mutual
def plainE : E → Bool
  | .num txt suf => simpleTok (.num txt suf)
  | .var s => simpleTok (.name s)
  | .call f a rest => simpleTok (.name f) && plainE a && plainL rest
  | .arr a rest => plainE a && plainL rest
  | .neg e => plainE e
  | .pow b e => plainE b && plainE e
  | .par a b rest => plainE a && plainE b && plainL rest
  | .mul a b => plainE a && plainE b
  | .div a b => plainE a && plainE b
  | .add a b => plainE a && plainE b
  | .sub a b => plainE a && plainE b
def plainL : List E → Bool
  | [] => true
  | e :: es => plainE e && plainL es
end

theorem plainL_mem : ∀ (rest : List E), plainL rest = true → ∀ x ∈ rest, plainE x = true := by
  intro rest
  induction rest with
  | nil => intro _ x hx; cases hx
  | cons e es ih =>
    intro h x hx
    simp only [plainL, Bool.and_eq_true] at h
    rcases List.mem_cons.mp hx with rfl | hx
    · exact h.1
    · exact ih h.2 x hx

/-- plain leaves and no adjacent operands -/
def Fine (l : List Tok) : Prop := l.all simpleTok = true ∧ sep l = true

/-- the next piece starts with an operator / bracket / comma, or is empty -/
def OpHead : List Tok → Prop
  | [] => True
  | o :: _ => operand o = false

theorem sep_cons_op (o : Tok) (l : List Tok) (ho : operand o = false) (hl : sep l = true) : sep (o :: l) = true := by
  cases l with
  | nil => rfl
  | cons b r => simp [sep, ho, hl]

theorem sep_append (X Y : List Tok) (hX : sep X = true) (hY : sep Y = true) (hh : OpHead Y) : sep (X ++ Y) = true := by
  induction X with
  | nil => simpa using hY
  | cons a as ih =>
    have hs := ih (sep_tail a as hX)
    cases as with
    | nil =>
      cases Y with
      | nil => rfl
      | cons o Y' =>
        simp only [OpHead] at hh
        simp only [List.cons_append, List.nil_append, sep, hh, Bool.and_false, Bool.not_false, Bool.true_and]
        simpa using hY
    | cons b r =>
      simp only [sep, Bool.and_eq_true] at hX
      simp only [List.cons_append, sep, hX.1, Bool.true_and]
      simpa using hs

theorem fine_append {X Y : List Tok} (hX : Fine X) (hY : Fine Y) (hh : OpHead Y) : Fine (X ++ Y) :=
  ⟨by simp [List.all_append, hX.1, hY.1], sep_append X Y hX.2 hY.2 hh⟩

theorem fine_cons_op {o : Tok} {l : List Tok} (hs : simpleTok o = true) (ho : operand o = false) (hl : Fine l) : Fine (o :: l) :=
  ⟨by simp [hs, hl.1], sep_cons_op o l ho hl.2⟩

theorem fine_nil : Fine [] := ⟨rfl, rfl⟩

theorem fine_wrap {l : List Tok} (hl : Fine l) : Fine (Tok.lp :: l ++ [Tok.rp]) := by
  have h1 : Fine (l ++ [Tok.rp]) := fine_append hl ⟨rfl, rfl⟩ (by simp [OpHead, operand])
  exact fine_cons_op rfl rfl h1

theorem fine_at {r : R} (k : Nat) (hc : Fine r.core) : Fine (r.at k) := by
  unfold R.at
  split
  · exact hc
  · exact fine_wrap hc

theorem fine_name_lp {f : String} {l : List Tok} (hf : simpleTok (.name f) = true) (hl : Fine (Tok.lp :: l)) : Fine (Tok.name f :: Tok.lp :: l) :=
  ⟨by simp [hf, hl.1], by
    have := hl.2
    simp only [sep, operand, Bool.and_false, Bool.not_false, Bool.true_and]
    exact this⟩


theorem args_fine : ∀ (rest : List E), (∀ x ∈ rest, Fine ((ra x).at 0)) → Fine (raArgs rest) ∧ OpHead (raArgs rest) := by
  intro rest
  induction rest with
  | nil => intro _; exact ⟨fine_nil, trivial⟩
  | cons e es ih =>
    intro h
    obtain ⟨h1, h2⟩ := ih (fun x hx => h x (by simp [hx]))
    simp only [raArgs]
    exact ⟨fine_cons_op rfl rfl (fine_append (h e (by simp)) h1 h2), rfl⟩

theorem pars_fine : ∀ (rest : List E), (∀ x ∈ rest, Fine ((ra x).at 3)) → Fine (raPars rest) ∧ OpHead (raPars rest) := by
  intro rest
  induction rest with
  | nil => intro _; exact ⟨fine_nil, trivial⟩
  | cons e es ih =>
    intro h
    obtain ⟨h1, h2⟩ := ih (fun x hx => h x (by simp [hx]))
    simp only [raPars]
    exact ⟨fine_cons_op rfl rfl (fine_cons_op rfl rfl (fine_append (h e (by simp)) h1 h2)), rfl⟩

theorem neg_expo (x : E) : (ra (.neg x)).expo = Tok.minus :: (ra x).at 5 ∨
    ∃ b e, x = .pow b e ∧ (ra (.neg x)).expo = Tok.minus :: ((ra b).at 5 ++ Tok.caret :: (ra e).expo) := by
  cases x with
  | pow b e => exact Or.inr ⟨b, e, rfl, by simp [ra]⟩
  | _ => left; simp [ra]

theorem neg_core' (x : E) : (ra (.neg x)).core = Tok.minus :: (ra x).at 4 := by
  cases x <;> simp [ra, R.at]

theorem size_pos' (e : E) : 0 < sizeOf e := by cases e <;> simp <;> omega

/-- every rendering of an expression with plain leaves consists of plain tokens with no two operands adjacent -/
theorem ra_fine : ∀ (n : Nat) (e : E), sizeOf e ≤ n → plainE e = true → Fine (ra e).core ∧ Fine (ra e).expo := by
  intro n
  induction n with
  | zero => intro e h; have := size_pos' e; omega
  | succ n ih =>
    intro e he hp
    have memlt : ∀ {rest : List E} {x : E}, x ∈ rest → sizeOf x < sizeOf rest := fun h => List.sizeOf_lt_of_mem h
    have opFine : ∀ {X Y : List Tok} {o : Tok}, Fine X → Fine Y → simpleTok o = true → operand o = false → Fine (X ++ o :: Y) :=
      fun hX hY hs ho => fine_append hX (fine_cons_op hs ho hY) ho
    cases e with
    | num txt suf =>
      simp only [plainE] at hp
      simp only [ra]
      exact ⟨⟨by simp [hp], rfl⟩, ⟨by simp [hp], rfl⟩⟩
    | var s =>
      simp only [plainE] at hp
      simp only [ra]
      exact ⟨⟨by simp [hp], rfl⟩, ⟨by simp [hp], rfl⟩⟩
    | call f a rest =>
      simp only [E.call.sizeOf_spec] at he
      simp only [plainE, Bool.and_eq_true] at hp
      have ga := (ih a (by omega) hp.1.2).1
      have gr : ∀ x ∈ rest, Fine ((ra x).at 0) := fun x hx =>
        fine_at 0 (ih x (by have := memlt hx; omega) (plainL_mem rest hp.2 x hx)).1
      obtain ⟨h1, h2⟩ := args_fine rest gr
      have hbody : Fine (Tok.lp :: ((ra a).at 0 ++ raArgs rest ++ [Tok.rp])) :=
        fine_cons_op rfl rfl (fine_append (fine_append (fine_at 0 ga) h1 h2) ⟨rfl, rfl⟩ (by simp [OpHead, operand]))
      have := fine_name_lp hp.1.1 hbody
      simp only [ra]
      exact ⟨by simpa using this, by simpa using this⟩
    | arr a rest =>
      simp only [E.arr.sizeOf_spec] at he
      simp only [plainE, Bool.and_eq_true] at hp
      have ga := (ih a (by omega) hp.1).1
      have gr : ∀ x ∈ rest, Fine ((ra x).at 0) := fun x hx =>
        fine_at 0 (ih x (by have := memlt hx; omega) (plainL_mem rest hp.2 x hx)).1
      obtain ⟨h1, h2⟩ := args_fine rest gr
      have hbody : Fine (Tok.lb :: ((ra a).at 0 ++ raArgs rest ++ [Tok.rb])) :=
        fine_cons_op rfl rfl (fine_append (fine_append (fine_at 0 ga) h1 h2) ⟨rfl, rfl⟩ (by simp [OpHead, operand]))
      simp only [ra]
      exact ⟨by simpa using hbody, by simpa using hbody⟩
    | neg x =>
      simp only [E.neg.sizeOf_spec] at he
      simp only [plainE] at hp
      have gx := ih x (by omega) hp
      refine ⟨?_, ?_⟩
      · rw [neg_core']; exact fine_cons_op rfl rfl (fine_at 4 gx.1)
      · rcases neg_expo x with h | ⟨b, e, rfl, h⟩
        · rw [h]; exact fine_cons_op rfl rfl (fine_at 5 gx.1)
        · rw [h]
          simp only [E.pow.sizeOf_spec] at he
          simp only [plainE, Bool.and_eq_true] at hp
          have gb := ih b (by omega) hp.1
          have ge := ih e (by omega) hp.2
          exact fine_cons_op rfl rfl (opFine (fine_at 5 gb.1) ge.2 rfl rfl)
    | pow b e =>
      simp only [E.pow.sizeOf_spec] at he
      simp only [plainE, Bool.and_eq_true] at hp
      have gb := ih b (by omega) hp.1
      have ge := ih e (by omega) hp.2
      have := opFine (fine_at 5 gb.1) ge.2 (o := Tok.caret) rfl rfl
      simp only [ra]
      exact ⟨this, this⟩
    | par a b rest =>
      simp only [E.par.sizeOf_spec] at he
      simp only [plainE, Bool.and_eq_true] at hp
      have ga := ih a (by omega) hp.1.1
      have gb := ih b (by omega) hp.1.2
      have gr : ∀ x ∈ rest, Fine ((ra x).at 3) := fun x hx =>
        fine_at 3 (ih x (by have := memlt hx; omega) (plainL_mem rest hp.2 x hx)).1
      obtain ⟨h1, h2⟩ := pars_fine rest gr
      have hc : Fine ((ra a).at 3 ++ Tok.pipe :: Tok.pipe :: ((ra b).at 3 ++ raPars rest)) :=
        opFine (fine_at 3 ga.1) (fine_cons_op rfl rfl (fine_append (fine_at 3 gb.1) h1 h2)) rfl rfl
      simp only [ra]
      exact ⟨by simpa using hc, by simpa using fine_wrap hc⟩
    | mul a b =>
      simp only [E.mul.sizeOf_spec] at he
      simp only [plainE, Bool.and_eq_true] at hp
      have hc := opFine (fine_at 1 (ih a (by omega) hp.1).1) (fine_at 2 (ih b (by omega) hp.2).1) (o := Tok.star) rfl rfl
      simp only [ra]
      exact ⟨hc, by simpa using fine_wrap hc⟩
    | div a b =>
      simp only [E.div.sizeOf_spec] at he
      simp only [plainE, Bool.and_eq_true] at hp
      have hc := opFine (fine_at 1 (ih a (by omega) hp.1).1) (fine_at 2 (ih b (by omega) hp.2).1) (o := Tok.slash) rfl rfl
      simp only [ra]
      exact ⟨hc, by simpa using fine_wrap hc⟩
    | add a b =>
      simp only [E.add.sizeOf_spec] at he
      simp only [plainE, Bool.and_eq_true] at hp
      have hc := opFine (fine_at 0 (ih a (by omega) hp.1).1) (fine_at 1 (ih b (by omega) hp.2).1) (o := Tok.plus) rfl rfl
      simp only [ra]
      exact ⟨hc, by simpa using fine_wrap hc⟩
    | sub a b =>
      simp only [E.sub.sizeOf_spec] at he
      simp only [plainE, Bool.and_eq_true] at hp
      have hc := opFine (fine_at 0 (ih a (by omega) hp.1).1) (fine_at 1 (ih b (by omega) hp.2).1) (o := Tok.minus) rfl rfl
      simp only [ra]
      exact ⟨hc, by simpa using fine_wrap hc⟩

theorem render_fine (e : E) (hp : plainE e = true) : Fine (render e) :=
  fine_at 0 (ra_fine (sizeOf e) e (Nat.le_refl _) hp).1

/-- **The lexer reads the printed rendering of any plain expression back as its token list** -/
theorem lex_render (e : E) (hp : plainE e = true) : lex (printStr (render e)) = some (render e) :=
  lex_print (render e) (render_fine e hp).1 (render_fine e hp).2

end C03

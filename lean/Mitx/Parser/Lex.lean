import Mitx.Parser.Syntax
namespace C03

def isWs (c : Char) : Bool := c == ' ' || c == '\t' || c == '\n' || c == '\r'
def isAlpha (c : Char) : Bool := ('a' ≤ c && c ≤ 'z') || ('A' ≤ c && c ≤ 'Z')
def isDigit (c : Char) : Bool := '0' ≤ c && c ≤ '9'
def isAlnum (c : Char) : Bool := isAlpha c || isDigit c
def minusChar (c : Char) : Bool := c == '-' || c == '—'

def takeWhile (p : Char → Bool) : List Char → List Char × List Char
  | c :: r => if p c then ((takeWhile p r).1.cons c, (takeWhile p r).2) else ([], c :: r)
  | [] => ([], [])

theorem takeWhile_length (p : Char → Bool) (s : List Char) : (takeWhile p s).2.length ≤ s.length := by
  induction s with
  | nil => simp [takeWhile]
  | cons c r ih => simp only [takeWhile]; split <;> simp <;> omega

def word1 (p : Char → Bool) (s : List Char) : Option (List Char × List Char) :=
  let r := takeWhile p s
  if r.1.isEmpty then none else some r

def lexMantissa (s : List Char) : Option (List Char × List Char) :=
  match word1 isDigit s with
  | some (ds, r) =>
    match r with
    | '.' :: r1 =>
      match word1 isDigit r1 with
      | some (fs, r2) => some (ds ++ ['.'] ++ fs, r2)
      | none => some (ds ++ ['.'], r1)
    | _ => some (ds, r)
  | none =>
    match s with
    | '.' :: r1 =>
      match word1 isDigit r1 with
      | some (fs, r2) => some ('.' :: fs, r2)
      | none => none
    | _ => none

def lexExpSign (r1 : List Char) : List Char × List Char :=
  match r1 with
  | c :: r2 => if c == '+' then (['+'], r2) else if minusChar c then (['-'], r2) else ([], r1)
  | [] => ([], r1)

def lexNumText (s : List Char) : Option (List Char × List Char) :=
  match lexMantissa s with
  | none => none
  | some (txt, r) =>
    match r with
    | e :: r1 =>
      if e == 'e' || e == 'E' then
        let sg := lexExpSign r1
        match word1 isDigit sg.2 with
        | some (ds, r3) => some (txt ++ ['E'] ++ sg.1 ++ ds, r3)
        | none => some (txt, r)
      else some (txt, r)
    | [] => some (txt, r)

def optMinus (r : List Char) : List Char × List Char :=
  match r with
  | '-' :: r1 => (['-'], r1)
  | _ => ([], r)

def lexIndex (open1 : Char) (s : List Char) : Option (List Char × List Char) :=
  match s with
  | o :: '{' :: r =>
    if o == open1 then
      match word1 isAlnum (optMinus r).2 with
      | some (w, '}' :: r2) => some ([o, '{'] ++ (optMinus r).1 ++ w ++ ['}'], r2)
      | _ => none
    else none
  | _ => none

def orSkip (o : Option (List Char × List Char)) (r : List Char) : List Char × List Char :=
  match o with | some x => x | none => ([], r)

def lexIndices (r : List Char) : List Char × List Char :=
  let a := orSkip (lexIndex '_' r) r
  let b := orSkip (lexIndex '^' a.2) a.2
  (a.1 ++ b.1, b.2)

def lexNameMid (rest : List Char) : List Char × List Char :=
  match word1 (fun c => isAlnum c || c == '_') rest with
  | some (w, rr) =>
    match rr with
    | '{' :: _ => lexIndices rest
    | _ => (w, rr)
  | none => lexIndices rest

/-- name starting at an alphabetic char -/
def lexName (s : List Char) : List Char × List Char :=
  let fr := takeWhile isAlnum s
  let mid := lexNameMid fr.2
  let pr := takeWhile (· == '\'') mid.2
  (fr.1 ++ mid.1 ++ pr.1, pr.2)

/-- single-character tokens -/
def opTok (c : Char) : Option Tok :=
  if c == '+' then some .plus else if minusChar c then some .minus
  else if c == '*' then some .star else if c == '/' then some .slash
  else if c == '^' then some .caret else if c == '|' then some .pipe
  else if c == '(' then some .lp else if c == ')' then some .rp
  else if c == '[' then some .lb else if c == ']' then some .rb
  else if c == ',' then some .comma else none

def skipWs : List Char → List Char
  | c :: r => if isWs c then skipWs r else c :: r
  | [] => []

/-- lexer with fuel (input length suffices) -/
def lexAux : Nat → List Char → Option (List Tok)
  | 0, s => if (skipWs s).isEmpty then some [] else none
  | f+1, s =>
    match skipWs s with
    | [] => some []
    | c :: r =>
      if isDigit c || c == '.' then
        match lexNumText (c :: r) with
        | none => none
        | some (txt, r1) =>
          match word1 (fun c => isAlpha c || c == '%') (skipWs r1) with
          | some (suf, r2) => (lexAux f r2).map (Tok.num (String.ofList txt) (some (String.ofList suf)) :: ·)
          | none => (lexAux f r1).map (Tok.num (String.ofList txt) none :: ·)
      else if isAlpha c then
        let nm := lexName (c :: r)
        (lexAux f nm.2).map (Tok.name (String.ofList nm.1) :: ·)
      else
        match opTok c with
        | some t => (lexAux f r).map (t :: ·)
        | none => none

def lex (src : String) : Option (List Tok) :=
  let cs := src.toList.filter (· != ' ')
  lexAux (cs.length + 1) cs

/-! printing in pyparsing's shape -/
def q (s : String) : String := "\"" ++ s ++ "\""
partial def T.toStr : T → String
  | .num txt none => "[\"number\"," ++ q txt ++ "]"
  | .num txt (some s) => "[\"number\"," ++ q txt ++ "," ++ q s ++ "]"
  | .var s => "[\"variable\"," ++ q s ++ "]"
  | .call f args => "[\"function\"," ++ q f ++ ",[\"arguments\"" ++ String.join (args.map (fun a => "," ++ a.toStr)) ++ "]]"
  | .arr xs => "[\"array\"" ++ String.join (xs.map (fun a => "," ++ a.toStr)) ++ "]"
  | .paren t => "[\"parentheses\"," ++ t.toStr ++ "]"
  | .power b rest => "[\"power\"," ++ b.toStr ++ String.join (rest.map (fun p => (if p.1 then ",\"-\"" else "") ++ "," ++ p.2.toStr)) ++ "]"
  | .neg t => "[\"negation\",\"-\"," ++ t.toStr ++ "]"
  | .par a rest => "[\"parallel\"," ++ a.toStr ++ String.join (rest.map (fun p => "," ++ p.toStr)) ++ "]"
  | .prod a rest => "[\"product\"," ++ a.toStr ++ String.join (rest.map (fun p => (if p.1 then ",\"/\"" else ",\"*\"") ++ "," ++ p.2.toStr)) ++ "]"
  | .sum lead a rest => "[\"sum\"" ++ (if lead then ",\"+\"" else "") ++ "," ++ a.toStr ++ String.join (rest.map (fun p => (if p.1 then ",\"-\"" else ",\"+\"") ++ "," ++ p.2.toStr)) ++ "]"

def parseString (src : String) : Option T := (lex src).bind parseToks

end C03

import Mitx.Parser.Lex
/-! The lexer accepts only strings over the grammar's alphabet: any other ("foreign") character, anywhere, makes
    `lex` fail — whatever surrounds it. Core Lean only. -/
namespace C03

def punct : List Char := ['.', '_', '{', '}', '^', '\'', '%', '+', '-', '—', '*', '/', '|', '(', ')', '[', ']', ',']
def allowedChar (c : Char) : Bool := isWs c || isAlnum c || punct.contains c

/-- `s` is `r` preceded by allowed characters only -/
def AU (s r : List Char) : Prop := ∃ pre, s = pre ++ r ∧ ∀ c ∈ pre, allowedChar c = true

theorem AU.refl (s : List Char) : AU s s := ⟨[], rfl, by simp⟩
theorem AU.trans {a b c : List Char} (h1 : AU a b) (h2 : AU b c) : AU a c := by
  obtain ⟨p1, rfl, q1⟩ := h1
  obtain ⟨p2, rfl, q2⟩ := h2
  exact ⟨p1 ++ p2, by simp, by intro c hc; rcases List.mem_append.mp hc with h | h; exact q1 c h; exact q2 c h⟩
theorem AU.cons {c : Char} {s r : List Char} (hc : allowedChar c = true) (h : AU s r) : AU (c :: s) r := by
  obtain ⟨p, rfl, q⟩ := h
  exact ⟨c :: p, rfl, by intro x hx; rcases List.mem_cons.mp hx with rfl | h; exact hc; exact q x h⟩
theorem AU.all {s : List Char} (h : AU s []) : ∀ c ∈ s, allowedChar c = true := by
  obtain ⟨p, rfl, q⟩ := h; simpa using q

theorem allowed_of_ws {c : Char} (h : isWs c = true) : allowedChar c = true := by simp [allowedChar, h]
theorem allowed_of_alnum {c : Char} (h : isAlnum c = true) : allowedChar c = true := by simp [allowedChar, h]
theorem allowed_of_digit {c : Char} (h : isDigit c = true) : allowedChar c = true := by simp [allowedChar, isAlnum, h]
theorem allowed_of_alpha {c : Char} (h : isAlpha c = true) : allowedChar c = true := by simp [allowedChar, isAlnum, h]
theorem allowed_punct {c : Char} (h : punct.contains c = true) : allowedChar c = true := by
  unfold allowedChar; rw [h]; simp

theorem takeWhile_AU (p : Char → Bool) (hp : ∀ c, p c = true → allowedChar c = true) (s : List Char) :
    AU s (takeWhile p s).2 := by
  induction s with
  | nil => exact AU.refl _
  | cons c r ih =>
    simp only [takeWhile]
    split
    · next h => exact AU.cons (hp c h) ih
    · exact AU.refl _

theorem word1_AU {p : Char → Bool} (hp : ∀ c, p c = true → allowedChar c = true) {s w r : List Char}
    (h : word1 p s = some (w, r)) : AU s r := by
  unfold word1 at h
  simp only at h
  split at h
  · simp at h
  · simp only [Option.some.injEq] at h
    have := takeWhile_AU p hp s
    rw [h] at this; exact this

theorem skipWs_AU (s : List Char) : AU s (skipWs s) := by
  induction s with
  | nil => exact AU.refl _
  | cons c r ih =>
    simp only [skipWs]
    split
    · next h => exact AU.cons (allowed_of_ws h) ih
    · exact AU.refl _

theorem lexMantissa_AU {s txt r : List Char} (h : lexMantissa s = some (txt, r)) : AU s r := by
  unfold lexMantissa at h
  split at h
  · next ds r0 h0 =>
    have a0 := word1_AU (fun c => allowed_of_digit) h0
    split at h
    · next r1' =>
      split at h
      · next fs r2 h2 =>
        simp only [Option.some.injEq, Prod.mk.injEq] at h
        obtain ⟨_, rfl⟩ := h
        exact a0.trans (AU.cons (allowed_punct (by decide)) (word1_AU (fun c => allowed_of_digit) h2))
      · simp only [Option.some.injEq, Prod.mk.injEq] at h
        obtain ⟨_, rfl⟩ := h
        exact a0.trans (AU.cons (allowed_punct (by decide)) (AU.refl _))
    · simp only [Option.some.injEq, Prod.mk.injEq] at h
      obtain ⟨_, rfl⟩ := h
      exact a0
  · split at h
    · next r1' =>
      split at h
      · next fs r2 h2 =>
        simp only [Option.some.injEq, Prod.mk.injEq] at h
        obtain ⟨_, rfl⟩ := h
        exact AU.cons (allowed_punct (by decide)) (word1_AU (fun c => allowed_of_digit) h2)
      · simp at h
    · simp at h

theorem lexExpSign_AU (r1 : List Char) : AU r1 (lexExpSign r1).2 := by
  unfold lexExpSign
  split
  · next c r2 =>
    split
    · next hc => simp only [beq_iff_eq] at hc; subst hc; exact AU.cons (allowed_punct (by decide)) (AU.refl _)
    · split
      · next hm =>
        have : allowedChar c = true := by
          simp only [minusChar, Bool.or_eq_true, beq_iff_eq] at hm
          rcases hm with rfl | rfl <;> decide
        exact AU.cons this (AU.refl _)
      · exact AU.refl _
  · exact AU.refl _

theorem lexNumText_AU {s txt r : List Char} (h : lexNumText s = some (txt, r)) : AU s r := by
  unfold lexNumText at h
  split at h
  · simp at h
  · next t1 r1 hin =>
    have a1 : AU s r1 := lexMantissa_AU hin
    split at h
    · next e r2 =>
      split at h
      · next he =>
        simp only at h
        split at h
        · next ds r3 h3 =>
          simp only [Option.some.injEq, Prod.mk.injEq] at h
          obtain ⟨_, rfl⟩ := h
          have hE : allowedChar e = true := by
            simp only [Bool.or_eq_true, beq_iff_eq] at he
            rcases he with rfl | rfl <;> decide
          exact a1.trans (AU.cons hE ((lexExpSign_AU r2).trans (word1_AU (fun c => allowed_of_digit) h3)))
        · simp only [Option.some.injEq, Prod.mk.injEq] at h
          obtain ⟨_, rfl⟩ := h
          exact a1
      · simp only [Option.some.injEq, Prod.mk.injEq] at h
        obtain ⟨_, rfl⟩ := h
        exact a1
    · simp only [Option.some.injEq, Prod.mk.injEq] at h
      obtain ⟨_, rfl⟩ := h
      exact a1

theorem optMinus_AU (r : List Char) : AU r (optMinus r).2 := by
  unfold optMinus
  split
  · exact AU.cons (allowed_punct (by decide)) (AU.refl _)
  · exact AU.refl _

theorem lexIndex_AU {o : Char} (ho : allowedChar o = true) {s w r : List Char} (h : lexIndex o s = some (w, r)) : AU s r := by
  unfold lexIndex at h
  split at h
  · next o' r0 =>
    split at h
    · next heq =>
      simp only [beq_iff_eq] at heq; subst heq
      split at h
      · next w' r2 hw =>
        simp only [Option.some.injEq, Prod.mk.injEq] at h
        obtain ⟨_, rfl⟩ := h
        refine AU.cons ho (AU.cons (allowed_punct (by decide)) ?_)
        have aw := word1_AU (fun c => allowed_of_alnum) hw
        exact (optMinus_AU r0).trans (aw.trans (AU.cons (allowed_punct (by decide)) (AU.refl _)))
      · simp at h
    · simp at h
  · simp at h

theorem orSkip_AU {o : Char} (ho : allowedChar o = true) (r : List Char) : AU r (orSkip (lexIndex o r) r).2 := by
  unfold orSkip
  split
  · next x hx => exact lexIndex_AU ho (w := x.1) (r := x.2) hx
  · exact AU.refl _

theorem lexIndices_AU (r : List Char) : AU r (lexIndices r).2 := by
  unfold lexIndices
  exact (orSkip_AU (by decide) r).trans (orSkip_AU (by decide) _)

theorem lexNameMid_AU (rest : List Char) : AU rest (lexNameMid rest).2 := by
  unfold lexNameMid
  split
  · next w rr hw =>
    split
    · exact lexIndices_AU _
    · exact word1_AU (fun c hc => by
        simp only [Bool.or_eq_true, beq_iff_eq] at hc
        rcases hc with h | rfl
        · exact allowed_of_alnum h
        · decide) hw
  · exact lexIndices_AU _

theorem lexName_AU (s : List Char) : AU s (lexName s).2 := by
  unfold lexName
  exact (takeWhile_AU isAlnum (fun c => allowed_of_alnum) s).trans ((lexNameMid_AU _).trans
    (takeWhile_AU _ (fun c hc => by simp only [beq_iff_eq] at hc; subst hc; decide) _))

theorem opTok_allowed {c : Char} {t : Tok} (h : opTok c = some t) : allowedChar c = true := by
  unfold opTok at h
  repeat' split at h
  all_goals first
    | (next hc => simp only [beq_iff_eq] at hc; subst hc; decide)
    | (next hm => simp only [minusChar, Bool.or_eq_true, beq_iff_eq] at hm; rcases hm with rfl | rfl <;> decide)
    | simp at h

theorem lexAux_AU : ∀ (f : Nat) (s : List Char) (toks : List Tok), lexAux f s = some toks → AU s []
  | 0, s, toks, h => by
    simp only [lexAux] at h
    split at h
    · next he =>
      have := skipWs_AU s
      cases hs : skipWs s with
      | nil => rw [hs] at this; exact this
      | cons c r => rw [hs] at he; simp at he
    · simp at h
  | f + 1, s, toks, h => by
    simp only [lexAux] at h
    have hws := skipWs_AU s
    split at h
    · next hs => rw [hs] at hws; exact hws
    · next c r hs =>
      rw [hs] at hws
      refine hws.trans ?_
      split at h
      · -- number
        split at h
        · simp at h
        · next txt r1 hn =>
          have an := lexNumText_AU hn
          split at h
          · next suf r2 hw =>
            cases hr : lexAux f r2 with
            | none => simp [hr] at h
            | some tk =>
              have a2 := lexAux_AU f r2 tk hr
              have aw := word1_AU (p := fun c => isAlpha c || c == '%') (fun c hc => by
                simp only [Bool.or_eq_true, beq_iff_eq] at hc
                rcases hc with h | rfl
                · exact allowed_of_alpha h
                · decide) hw
              exact an.trans ((skipWs_AU r1).trans (aw.trans a2))
          · cases hr : lexAux f r1 with
            | none => simp [hr] at h
            | some tk => exact an.trans (lexAux_AU f r1 tk hr)
      · split at h
        · -- name
          cases hr : lexAux f (lexName (c :: r)).2 with
          | none => simp [hr] at h
          | some tk => exact (lexName_AU (c :: r)).trans (lexAux_AU f _ tk hr)
        · -- single-character tokens
          split at h
          · next t ht =>
            cases hr : lexAux f r with
            | none => simp [hr] at h
            | some tk' => exact AU.cons (opTok_allowed ht) (lexAux_AU f r tk' hr)
          · simp at h

/-- **Foreign characters are rejected.** If the string contains (anywhere) a character outside the grammar's alphabet
    — letters, digits, whitespace and `. _ { } ^ ' % + - — * / | ( ) [ ] ,` — the lexer fails, hence so does the parse. -/
theorem lex_rejects_foreign (src : String) (c : Char) (hc : c ∈ src.toList) (hbad : allowedChar c = false) : lex src = none := by
  cases h : lex src with
  | none => rfl
  | some toks =>
    unfold lex at h
    have hall := (lexAux_AU _ _ _ h).all
    have hne : c ≠ ' ' := by intro e; subst e; simp [allowedChar, isWs] at hbad
    have := hall c (List.mem_filter.mpr ⟨hc, by simpa using hne⟩)
    rw [hbad] at this; simp at this

theorem parseString_rejects_foreign (src : String) (c : Char) (hc : c ∈ src.toList) (hbad : allowedChar c = false) :
    parseString src = none := by
  unfold parseString; rw [lex_rejects_foreign src c hc hbad]; rfl

end C03

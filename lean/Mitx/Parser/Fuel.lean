import Mitx.Parser.Reject
/-! The fuel of the parser model is adequate: beyond `8·|tokens| + 7` more fuel never changes any result, so a `none`
    of `parseToks` (fuel `20·|tokens| + 20`) is a genuine rejection, never an exhausted counter. Core Lean only. -/
namespace C03

theorem seg_length_pos {st : Tok → Bool} {c : List Tok} (h : Seg st c) : 0 < c.length := by
  obtain ⟨⟨x, hx, _⟩, _⟩ := h
  cases c with
  | nil => simp at hx
  | cons _ _ => simp

theorem lt_of_consumed {st : Tok → Bool} {ts c rest : List Tok} (e : ts = c ++ rest) (s : Seg st c) : rest.length < ts.length := by
  have := seg_length_pos s
  subst e; simp; omega

theorem expr_lt {f ts t rest} (h : pExpr f ts = some (t, rest)) : rest.length < ts.length :=
  let ⟨e, s⟩ := (snd_all f).expr _ _ _ h; lt_of_consumed e s
theorem product_lt {f ts t rest} (h : pProduct f ts = some (t, rest)) : rest.length < ts.length :=
  let ⟨e, s⟩ := (snd_all f).product _ _ _ h; lt_of_consumed e s
theorem parallel_lt {f ts t rest} (h : pParallel f ts = some (t, rest)) : rest.length < ts.length :=
  let ⟨e, s⟩ := (snd_all f).parallel _ _ _ h; lt_of_consumed e s
theorem negation_lt {f ts t rest} (h : pNegation f ts = some (t, rest)) : rest.length < ts.length :=
  let ⟨e, s⟩ := (snd_all f).negation _ _ _ h; lt_of_consumed e s
theorem atom_lt {f ts t rest} (h : pAtom f ts = some (t, rest)) : rest.length < ts.length :=
  let ⟨e, s⟩ := (snd_all f).atom _ _ _ h; lt_of_consumed e s

structure Stb (f : Nat) : Prop where
  expr : ∀ ts, 8 * ts.length + 6 ≤ f → pExpr (f + 1) ts = pExpr f ts
  sumTail : ∀ ts, 8 * ts.length + 1 ≤ f → pSumTail (f + 1) ts = pSumTail f ts
  product : ∀ ts, 8 * ts.length + 5 ≤ f → pProduct (f + 1) ts = pProduct f ts
  prodTail : ∀ ts, 8 * ts.length + 1 ≤ f → pProdTail (f + 1) ts = pProdTail f ts
  parallel : ∀ ts, 8 * ts.length + 4 ≤ f → pParallel (f + 1) ts = pParallel f ts
  parTail : ∀ ts, 8 * ts.length + 1 ≤ f → pParTail (f + 1) ts = pParTail f ts
  negation : ∀ ts, 8 * ts.length + 3 ≤ f → pNegation (f + 1) ts = pNegation f ts
  power : ∀ ts, 8 * ts.length + 2 ≤ f → pPower (f + 1) ts = pPower f ts
  powTail : ∀ ts, 8 * ts.length + 1 ≤ f → pPowTail (f + 1) ts = pPowTail f ts
  list : ∀ ts, 8 * ts.length + 7 ≤ f → pList (f + 1) ts = pList f ts
  listTail : ∀ ts, 8 * ts.length + 1 ≤ f → pListTail (f + 1) ts = pListTail f ts
  atom : ∀ ts, 8 * ts.length + 1 ≤ f → pAtom (f + 1) ts = pAtom f ts

theorem stb_zero : Stb 0 := by
  constructor <;> intro ts h <;> omega

theorem stb_succ {f : Nat} (ih : Stb f) : Stb (f + 1) where
  expr := by
    intro ts h
    cases ts with
    | nil =>
      simp only [pExpr]
      simp only [List.length_nil] at h
      rw [ih.product [] (by simp only [List.length_nil] at *; omega)]
      cases h1 : pProduct f [] with
      | none => rfl
      | some p =>
        obtain ⟨a, r1⟩ := p
        simp only []
        rw [ih.sumTail r1 (by have := product_lt h1; simp only [List.length_nil] at *; omega)]
    | cons t0 r =>
      simp only [List.length_cons] at h
      cases t0
      case plus =>
        simp only [pExpr]
        rw [ih.product r (by omega)]
        cases h1 : pProduct f r with
        | none => rfl
        | some p =>
          obtain ⟨a, r1⟩ := p
          simp only []
          rw [ih.sumTail r1 (by have := product_lt h1; omega)]
      all_goals
        simp only [pExpr]
        rw [ih.product _ (by simp only [List.length_cons] at *; omega)]
        cases h1 : pProduct f (_ :: r) with
        | none => rfl
        | some p =>
          obtain ⟨a, r1⟩ := p
          simp only []
          rw [ih.sumTail r1 (by have := product_lt h1; simp only [List.length_cons] at *; omega)]
  sumTail := by
    intro ts h
    cases ts with
    | nil => simp only [pSumTail]
    | cons t0 r =>
      simp only [List.length_cons] at h
      cases t0
      case plus =>
        simp only [pSumTail]
        rw [ih.product r (by omega)]
        cases h1 : pProduct f r with
        | none => rfl
        | some p =>
          obtain ⟨a, r1⟩ := p
          simp only []
          rw [ih.sumTail r1 (by have := product_lt h1; omega)]
      case minus =>
        simp only [pSumTail]
        rw [ih.product r (by omega)]
        cases h1 : pProduct f r with
        | none => rfl
        | some p =>
          obtain ⟨a, r1⟩ := p
          simp only []
          rw [ih.sumTail r1 (by have := product_lt h1; omega)]
      all_goals simp only [pSumTail]
  product := by
    intro ts h
    simp only [pProduct]
    rw [ih.parallel ts (by omega)]
    cases h1 : pParallel f ts with
    | none => rfl
    | some p =>
      obtain ⟨a, r1⟩ := p
      simp only []
      rw [ih.prodTail r1 (by have := parallel_lt h1; omega)]
  prodTail := by
    intro ts h
    cases ts with
    | nil => simp only [pProdTail]
    | cons t0 r =>
      simp only [List.length_cons] at h
      cases t0
      case star =>
        simp only [pProdTail]
        rw [ih.parallel r (by omega)]
        cases h1 : pParallel f r with
        | none => rfl
        | some p =>
          obtain ⟨a, r1⟩ := p
          simp only []
          rw [ih.prodTail r1 (by have := parallel_lt h1; omega)]
      case slash =>
        simp only [pProdTail]
        rw [ih.parallel r (by omega)]
        cases h1 : pParallel f r with
        | none => rfl
        | some p =>
          obtain ⟨a, r1⟩ := p
          simp only []
          rw [ih.prodTail r1 (by have := parallel_lt h1; omega)]
      all_goals simp only [pProdTail]
  parallel := by
    intro ts h
    simp only [pParallel]
    rw [ih.negation ts (by omega)]
    cases h1 : pNegation f ts with
    | none => rfl
    | some p =>
      obtain ⟨a, r1⟩ := p
      simp only []
      rw [ih.parTail r1 (by have := negation_lt h1; omega)]
  parTail := by
    intro ts h
    cases ts with
    | nil => simp only [pParTail]
    | cons t0 r =>
      simp only [List.length_cons] at h
      cases t0
      case pipe =>
        cases r with
        | nil => simp only [pParTail]
        | cons t1 r' =>
          simp only [List.length_cons] at h
          cases t1
          case pipe =>
            simp only [pParTail]
            rw [ih.negation r' (by omega)]
            cases h1 : pNegation f r' with
            | none => rfl
            | some p =>
              obtain ⟨a, r1⟩ := p
              simp only []
              rw [ih.parTail r1 (by have := negation_lt h1; omega)]
          all_goals simp only [pParTail]
      all_goals simp only [pParTail]
  negation := by
    intro ts h
    cases ts with
    | nil => simp only [pNegation]; exact ih.power [] (by simp at h ⊢; omega)
    | cons t0 r =>
      simp only [List.length_cons] at h
      cases t0
      case minus =>
        simp only [pNegation]
        rw [ih.power r (by omega)]
      all_goals
        simp only [pNegation]
        exact ih.power _ (by simp only [List.length_cons]; omega)
  power := by
    intro ts h
    simp only [pPower]
    rw [ih.atom ts (by omega)]
    cases h1 : pAtom f ts with
    | none => rfl
    | some p =>
      obtain ⟨a, r1⟩ := p
      simp only []
      rw [ih.powTail r1 (by have := atom_lt h1; omega)]
  powTail := by
    intro ts h
    cases ts with
    | nil => simp only [pPowTail]
    | cons t0 r =>
      simp only [List.length_cons] at h
      cases t0
      case caret =>
        cases r with
        | nil =>
          simp only [pPowTail]
          rw [ih.atom [] (by simp; omega)]
          cases h1 : pAtom f [] with
          | none => rfl
          | some p => have := atom_lt h1; simp at this
        | cons t1 r' =>
          simp only [List.length_cons] at h
          cases t1
          case minus =>
            simp only [pPowTail]
            rw [ih.atom r' (by omega)]
            cases h1 : pAtom f r' with
            | none => rfl
            | some p =>
              obtain ⟨a, r1⟩ := p
              simp only []
              rw [ih.powTail r1 (by have := atom_lt h1; omega)]
          all_goals
            simp only [pPowTail]
            rw [ih.atom _ (by simp only [List.length_cons] at *; omega)]
            cases h1 : pAtom f (_ :: r') with
            | none => rfl
            | some p =>
              obtain ⟨a, r1⟩ := p
              simp only []
              rw [ih.powTail r1 (by have := atom_lt h1; simp only [List.length_cons] at *; omega)]
      all_goals simp only [pPowTail]
  list := by
    intro ts h
    simp only [pList]
    rw [ih.expr ts (by omega)]
    cases h1 : pExpr f ts with
    | none => rfl
    | some p =>
      obtain ⟨a, r1⟩ := p
      simp only []
      rw [ih.listTail r1 (by have := expr_lt h1; omega)]
  listTail := by
    intro ts h
    cases ts with
    | nil => simp only [pListTail]
    | cons t0 r =>
      simp only [List.length_cons] at h
      cases t0
      case comma =>
        simp only [pListTail]
        rw [ih.expr r (by omega)]
        cases h1 : pExpr f r with
        | none => rfl
        | some p =>
          obtain ⟨a, r1⟩ := p
          simp only []
          rw [ih.listTail r1 (by have := expr_lt h1; omega)]
      all_goals simp only [pListTail]
  atom := by
    intro ts h
    cases ts with
    | nil => simp only [pAtom]
    | cons t0 r =>
      simp only [List.length_cons] at h
      cases t0
      case name s =>
        cases r with
        | nil => simp only [pAtom]
        | cons t1 r' =>
          simp only [List.length_cons] at h
          cases t1
          case lp =>
            simp only [pAtom]
            rw [ih.list r' (by omega)]
          all_goals simp only [pAtom]
      case lp =>
        simp only [pAtom]
        rw [ih.expr r (by omega)]
      case lb =>
        simp only [pAtom]
        rw [ih.list r (by omega)]
      all_goals simp only [pAtom]

theorem stb_all : ∀ f, Stb f
  | 0 => stb_zero
  | f + 1 => stb_succ (stb_all f)

/-- more fuel than `8·|ts| + 6` never changes the outcome of `pExpr` -/
theorem pExpr_fuel_irrelevant (ts : List Tok) : ∀ (f : Nat), 8 * ts.length + 6 ≤ f → pExpr f ts = pExpr (8 * ts.length + 6) ts := by
  intro f hf
  induction f with
  | zero => omega
  | succ f ih =>
    rcases Nat.lt_or_ge f (8 * ts.length + 6) with hlt | hge
    · have : f + 1 = 8 * ts.length + 6 := by omega
      rw [this]
    · rw [(stb_all f).expr ts hge]; exact ih hge

/-- **Fuel adequacy.** Whatever `pExpr` returns with any sufficient fuel is what `parseToks` (fuel `20·|ts| + 20`) sees. -/
theorem parseToks_of_pExpr {ts : List Tok} {t : T} {f : Nat} (hf : 8 * ts.length + 6 ≤ f) (h : pExpr f ts = some (t, [])) :
    parseToks ts = some t := by
  unfold parseToks
  rw [pExpr_fuel_irrelevant ts (20 * ts.length + 20) (by omega), ← pExpr_fuel_irrelevant ts f hf, h]

/-- a rejection by `parseToks` is a rejection with every larger fuel too (never an exhausted counter) -/
theorem parseToks_none_stable {ts : List Tok} (h : parseToks ts = none) (f : Nat) (hf : 8 * ts.length + 6 ≤ f) :
    ∀ t, pExpr f ts ≠ some (t, []) := by
  intro t ht
  rw [parseToks_of_pExpr hf ht] at h; simp at h

end C03

import Mitx.Parser.Syntax
/-! Soundness of the PEG parser with respect to the token string: a successful parse consumed exactly the tokens of the
    tree it returns, in order (`yield`), and that token string satisfies the local well-formedness conditions of the
    grammar (first token, last token, every adjacent pair). Every string violating one of them is therefore rejected,
    for every fuel, in every context: doubled operators, juxtaposed operands, empty brackets / argument lists,
    leading or trailing operators. Core Lean only. -/
namespace C03

/-! ### the token string of a tree -/
mutual
def yT : T → List Tok
  | .num txt suf => [.num txt suf]
  | .var s => [.name s]
  | .call f args => .name f :: .lp :: (yL args ++ [.rp])
  | .arr xs => .lb :: (yL xs ++ [.rb])
  | .paren t => .lp :: (yT t ++ [.rp])
  | .power b rest => yT b ++ yPow rest
  | .neg t => .minus :: yT t
  | .par a rest => yT a ++ yPar rest
  | .prod a rest => yT a ++ yProd rest
  | .sum lead a rest => (if lead then [Tok.plus] else []) ++ (yT a ++ ySum rest)
def yL : List T → List Tok
  | [] => []
  | t :: ts => yT t ++ yLT ts
def yLT : List T → List Tok
  | [] => []
  | t :: ts => .comma :: (yT t ++ yLT ts)
def yPar : List T → List Tok
  | [] => []
  | t :: ts => .pipe :: .pipe :: (yT t ++ yPar ts)
def yPow : List (Bool × T) → List Tok
  | [] => []
  | (s, t) :: ts => (if s then [Tok.caret, Tok.minus] else [Tok.caret]) ++ (yT t ++ yPow ts)
def yProd : List (Bool × T) → List Tok
  | [] => []
  | (s, t) :: ts => (if s then Tok.slash else Tok.star) :: (yT t ++ yProd ts)
def ySum : List (Bool × T) → List Tok
  | [] => []
  | (s, t) :: ts => (if s then Tok.minus else Tok.plus) :: (yT t ++ ySum ts)
end

theorem yT_mkSum (l : Bool) (a : T) (rest : List (Bool × T)) :
    yT (mkSum l a rest) = (if l then [Tok.plus] else []) ++ (yT a ++ ySum rest) := by
  unfold mkSum; split
  · next h => cases rest <;> cases l <;> simp_all [ySum]
  · simp [yT]
theorem yT_mkProd (a : T) (rest : List (Bool × T)) : yT (mkProd a rest) = yT a ++ yProd rest := by
  unfold mkProd; split
  · next h => cases rest <;> simp_all [yProd]
  · simp [yT]
theorem yT_mkPar (a : T) (rest : List T) : yT (mkPar a rest) = yT a ++ yPar rest := by
  unfold mkPar; split
  · next h => cases rest <;> simp_all [yPar]
  · simp [yT]
theorem yT_mkPower (a : T) (rest : List (Bool × T)) : yT (mkPower a rest) = yT a ++ yPow rest := by
  unfold mkPower; split
  · next h => cases rest <;> simp_all [yPow]
  · simp [yT]

/-! ### token classes and the adjacency table -/
def opndEnd : Tok → Bool
  | .num _ _ => true | .name _ => true | .rp => true | .rb => true | _ => false
def startA : Tok → Bool
  | .num _ _ => true | .name _ => true | .lp => true | .lb => true | _ => false
def startN (t : Tok) : Bool := startA t || t == .minus
def startE (t : Tok) : Bool := startN t || t == .plus
def isBinop : Tok → Bool
  | .plus => true | .minus => true | .star => true | .slash => true | .caret => true | .pipe => true | _ => false
def isCloser : Tok → Bool
  | .rp => true | .rb => true | .comma => true | _ => false
def isName : Tok → Bool
  | .name _ => true | _ => false

/-- which token may directly follow which (necessary condition for membership in the grammar) -/
def Adj (a b : Tok) : Bool :=
  match a with
  | .num _ _ => isBinop b || isCloser b
  | .name _ => isBinop b || isCloser b || b == .lp
  | .rp => isBinop b || isCloser b
  | .rb => isBinop b || isCloser b
  | .plus => startN b
  | .minus => startN b
  | .star => startN b
  | .slash => startN b
  | .caret => startN b
  | .pipe => b == .pipe || startN b
  | .lp => startE b
  | .lb => startE b
  | .comma => startE b

def chainOK : List Tok → Bool
  | a :: b :: r => Adj a b && chainOK (b :: r)
  | _ => true

def lastT : List Tok → Option Tok
  | [] => none
  | [a] => some a
  | _ :: b :: r => lastT (b :: r)

theorem lastT_append_cons (a : List Tok) (x : Tok) (b : List Tok) : lastT (a ++ x :: b) = lastT (x :: b) := by
  induction a with
  | nil => rfl
  | cons y ys ih =>
    cases ys with
    | nil => simpa [lastT] using ih
    | cons z zs => simpa [lastT] using ih
theorem lastT_snoc (a : List Tok) (x : Tok) : lastT (a ++ [x]) = some x := by
  rw [lastT_append_cons]; rfl
theorem lastT_cons_of_some {c : List Tok} {l : Tok} (h : lastT c = some l) (t : Tok) : lastT (t :: c) = some l := by
  cases c with
  | nil => simp [lastT] at h
  | cons x xs => simpa [lastT] using h
theorem lastT_append_of_some {b : List Tok} {l : Tok} (h : lastT b = some l) (a : List Tok) : lastT (a ++ b) = some l := by
  cases b with
  | nil => simp [lastT] at h
  | cons x xs => rw [lastT_append_cons]; exact h

theorem chainOK_cons {t : Tok} {c : List Tok} {h : Tok} (hh : c.head? = some h) :
    chainOK (t :: c) = (Adj t h && chainOK c) := by
  cases c with
  | nil => simp at hh
  | cons x xs => simp at hh; subst hh; rfl

theorem chainOK_append {a b : List Tok} {l h : Tok} (hl : lastT a = some l) (hh : b.head? = some h) :
    chainOK (a ++ b) = (chainOK a && Adj l h && chainOK b) := by
  induction a with
  | nil => simp [lastT] at hl
  | cons x xs ih =>
    cases xs with
    | nil =>
      simp [lastT] at hl; subst hl
      simp [chainOK_cons hh, chainOK]
    | cons y ys =>
      have hl' : lastT (y :: ys) = some l := by simpa [lastT] using hl
      have := ih hl'
      simp only [List.cons_append, chainOK] at this ⊢
      rw [this]; simp [Bool.and_assoc]

theorem chainOK_append_nil_or {a b : List Tok} (h : chainOK (a ++ b) = true) : chainOK a = true ∧ chainOK b = true := by
  induction a with
  | nil => simpa [chainOK] using h
  | cons x xs ih =>
    cases xs with
    | nil =>
      refine ⟨rfl, ?_⟩
      cases b with
      | nil => rfl
      | cons y ys => simp [chainOK] at h; exact h.2
    | cons y ys =>
      simp only [List.cons_append, chainOK, Bool.and_eq_true] at h ⊢
      have := ih h.2
      exact ⟨⟨h.1, this.1⟩, this.2⟩

/-- a bad adjacent pair anywhere makes the chain fail -/
theorem chainOK_bad_pair (pre post : List Tok) (a b : Tok) (hab : Adj a b = false) :
    chainOK (pre ++ a :: b :: post) = false := by
  cases hc : chainOK (pre ++ a :: b :: post) with
  | false => rfl
  | true =>
    have := (chainOK_append_nil_or hc).2
    simp [chainOK, hab] at this

/-! ### segments -/
/-- a complete operand phrase: starts with an admissible token, ends with an operand end, all pairs admissible -/
def Seg (st : Tok → Bool) (c : List Tok) : Prop :=
  (∃ h, c.head? = some h ∧ st h = true) ∧ (∃ l, lastT c = some l ∧ opndEnd l = true) ∧ chainOK c = true
/-- a (possibly empty) repetition tail: empty, or starts with its operator and ends with an operand end -/
def TSeg (op : Tok → Bool) (c : List Tok) : Prop :=
  c = [] ∨ ((∃ h, c.head? = some h ∧ op h = true) ∧ (∃ l, lastT c = some l ∧ opndEnd l = true) ∧ chainOK c = true)

theorem Seg.mono {st st' : Tok → Bool} {c} (h : Seg st c) (hs : ∀ t, st t = true → st' t = true) : Seg st' c := by
  obtain ⟨⟨x, hx, hsx⟩, hl, hc⟩ := h
  exact ⟨⟨x, hx, hs x hsx⟩, hl, hc⟩

/-- operand phrase followed by a tail whose operator may follow any operand end -/
theorem Seg.append_tseg {st op : Tok → Bool} {c1 c2 : List Tok} (h1 : Seg st c1) (h2 : TSeg op c2)
    (hadj : ∀ a b, opndEnd a = true → op b = true → Adj a b = true) : Seg st (c1 ++ c2) := by
  rcases h2 with rfl | ⟨⟨h, hh, hop⟩, ⟨l2, hl2, he2⟩, hc2⟩
  · simpa using h1
  · obtain ⟨⟨x, hx, hsx⟩, ⟨l1, hl1, he1⟩, hc1⟩ := h1
    refine ⟨⟨x, ?_, hsx⟩, ⟨l2, lastT_append_of_some hl2 _, he2⟩, ?_⟩
    · cases c1 with
      | nil => simp at hx
      | cons y ys => simpa using hx
    · rw [chainOK_append hl1 hh, hc1, hc2, hadj l1 h he1 hop]; rfl

/-- `tok :: phrase` -/
theorem Seg.cons {st st' : Tok → Bool} {c : List Tok} (t : Tok) (h : Seg st c) (ht : st' t = true)
    (hadj : ∀ b, st b = true → Adj t b = true) : Seg st' (t :: c) := by
  obtain ⟨⟨x, hx, hsx⟩, ⟨l, hl, he⟩, hc⟩ := h
  refine ⟨⟨t, rfl, ht⟩, ⟨l, lastT_cons_of_some hl t, he⟩, ?_⟩
  rw [chainOK_cons hx, hadj x hsx, hc]; rfl

/-- `op :: phrase ++ tail` is a tail -/
theorem TSeg.step {st op : Tok → Bool} {c1 c2 : List Tok} (t : Tok) (ht : op t = true) (h1 : Seg st c1) (h2 : TSeg op c2)
    (hadj1 : ∀ b, st b = true → Adj t b = true)
    (hadj2 : ∀ a b, opndEnd a = true → op b = true → Adj a b = true) : TSeg op (t :: (c1 ++ c2)) := by
  have h12 := h1.append_tseg h2 hadj2
  obtain ⟨hd, hl, hc⟩ := Seg.cons (st' := op) t h12 ht hadj1
  exact Or.inr ⟨hd, hl, hc⟩

/-- bracketed phrase: `open :: phrase ++ [close]` -/
theorem Seg.bracket {st : Tok → Bool} {c : List Tok} (o cl : Tok) (h : Seg st c)
    (hadj1 : ∀ b, st b = true → Adj o b = true) (hcl : opndEnd cl = true)
    (hadj2 : ∀ a, opndEnd a = true → Adj a cl = true) : Seg (· == o) (o :: (c ++ [cl])) := by
  obtain ⟨⟨x, hx, hsx⟩, ⟨l, hl, he⟩, hc⟩ := h
  have hx' : (c ++ [cl]).head? = some x := by
    cases c with
    | nil => simp at hx
    | cons y ys => simpa using hx
  refine ⟨⟨o, rfl, by simp⟩, ⟨cl, lastT_cons_of_some (lastT_snoc c cl) o, hcl⟩, ?_⟩
  rw [chainOK_cons hx', hadj1 x hsx, chainOK_append hl (show [cl].head? = some cl from rfl), hc, hadj2 l he]; rfl

theorem Seg.toTSeg {op : Tok → Bool} {c : List Tok} (h : Seg op c) : TSeg op c := Or.inr h

/-! ### adjacency facts used by the induction -/
def isPM : Tok → Bool | .plus => true | .minus => true | _ => false
def isSS : Tok → Bool | .star => true | .slash => true | _ => false
def isPipe : Tok → Bool | .pipe => true | _ => false
def isCaret : Tok → Bool | .caret => true | _ => false
def isComma : Tok → Bool | .comma => true | _ => false

theorem adj_end_pm {a b : Tok} (ha : opndEnd a = true) (hb : isPM b = true) : Adj a b = true := by
  cases a <;> cases b <;> simp_all [opndEnd, Adj, isPM, isBinop]
theorem adj_end_ss {a b : Tok} (ha : opndEnd a = true) (hb : isSS b = true) : Adj a b = true := by
  cases a <;> cases b <;> simp_all [opndEnd, Adj, isSS, isBinop]
theorem adj_end_pipe {a b : Tok} (ha : opndEnd a = true) (hb : isPipe b = true) : Adj a b = true := by
  cases a <;> cases b <;> simp_all [opndEnd, Adj, isPipe, isBinop]
theorem adj_end_caret {a b : Tok} (ha : opndEnd a = true) (hb : isCaret b = true) : Adj a b = true := by
  cases a <;> cases b <;> simp_all [opndEnd, Adj, isCaret, isBinop]
theorem adj_end_comma {a b : Tok} (ha : opndEnd a = true) (hb : isComma b = true) : Adj a b = true := by
  cases a <;> cases b <;> simp_all [opndEnd, Adj, isComma, isCloser]
theorem adj_end_rp {a : Tok} (ha : opndEnd a = true) : Adj a .rp = true := by
  cases a <;> simp_all [opndEnd, Adj, isCloser]
theorem adj_end_rb {a : Tok} (ha : opndEnd a = true) : Adj a .rb = true := by
  cases a <;> simp_all [opndEnd, Adj, isCloser]
theorem startN_of_startA {t : Tok} (h : startA t = true) : startN t = true := by simp [startN, h]
theorem startE_of_startN {t : Tok} (h : startN t = true) : startE t = true := by simp [startE, h]

/-! ### the induction over the fuel -/
structure Snd (f : Nat) : Prop where
  expr : ∀ ts t rest, pExpr f ts = some (t, rest) → ts = yT t ++ rest ∧ Seg startE (yT t)
  sumTail : ∀ ts l rest, pSumTail f ts = some (l, rest) → ts = ySum l ++ rest ∧ TSeg isPM (ySum l)
  product : ∀ ts t rest, pProduct f ts = some (t, rest) → ts = yT t ++ rest ∧ Seg startN (yT t)
  prodTail : ∀ ts l rest, pProdTail f ts = some (l, rest) → ts = yProd l ++ rest ∧ TSeg isSS (yProd l)
  parallel : ∀ ts t rest, pParallel f ts = some (t, rest) → ts = yT t ++ rest ∧ Seg startN (yT t)
  parTail : ∀ ts l rest, pParTail f ts = some (l, rest) → ts = yPar l ++ rest ∧ TSeg isPipe (yPar l)
  negation : ∀ ts t rest, pNegation f ts = some (t, rest) → ts = yT t ++ rest ∧ Seg startN (yT t)
  power : ∀ ts t rest, pPower f ts = some (t, rest) → ts = yT t ++ rest ∧ Seg startA (yT t)
  powTail : ∀ ts l rest, pPowTail f ts = some (l, rest) → ts = yPow l ++ rest ∧ TSeg isCaret (yPow l)
  list : ∀ ts l rest, pList f ts = some (l, rest) → ts = yL l ++ rest ∧ Seg startE (yL l)
  listTail : ∀ ts l rest, pListTail f ts = some (l, rest) → ts = yLT l ++ rest ∧ TSeg isComma (yLT l)
  atom : ∀ ts t rest, pAtom f ts = some (t, rest) → ts = yT t ++ rest ∧ Seg startA (yT t)

theorem snd_zero : Snd 0 := by
  constructor <;> intro ts t rest h <;>
    simp [pExpr, pSumTail, pProduct, pProdTail, pParallel, pParTail, pNegation, pPower, pPowTail, pList, pListTail, pAtom] at h

theorem snd_succ {f : Nat} (ih : Snd f) : Snd (f + 1) where
  expr := by
    intro ts t rest h
    have key : ∀ (lead : Bool) (ts1 : List Tok),
        (match pProduct f ts1 with
          | none => none
          | some (a, r) => match pSumTail f r with
            | none => none
            | some (rs, r') => some (mkSum lead a rs, r')) = some (t, rest) →
        ((if lead then [Tok.plus] else []) ++ ts1 = yT t ++ rest) ∧ Seg startE (yT t) := by
      intro lead ts1 h
      split at h
      · simp at h
      · next a r1 h1 =>
        split at h
        · simp at h
        · next l r2 h2 =>
          simp only [Option.some.injEq, Prod.mk.injEq] at h
          obtain ⟨rfl, rfl⟩ := h
          obtain ⟨e1, s1⟩ := ih.product _ _ _ h1
          obtain ⟨e2, s2⟩ := ih.sumTail _ _ _ h2
          subst e1; subst e2
          rw [yT_mkSum]
          have s12 := s1.append_tseg s2 (fun a b => adj_end_pm)
          refine ⟨by simp, ?_⟩
          cases lead with
          | false => simpa using s12.mono (fun t => startE_of_startN)
          | true =>
            simpa using Seg.cons (st' := startE) Tok.plus s12 rfl (fun b hb => by simpa [Adj] using hb)
    cases ts with
    | nil =>
      have := key false [] (by simp only [pExpr] at h; exact h)
      simpa using this
    | cons t0 r =>
      by_cases hp : t0 = Tok.plus
      · subst hp
        have := key true r (by simp only [pExpr] at h; exact h)
        simpa using this
      · have := key false (t0 :: r) (by cases t0 <;> first | (exfalso; exact hp rfl) | (simp only [pExpr] at h; exact h))
        simpa using this
  sumTail := by
    intro ts l rest h
    cases ts with
    | nil => simp [pSumTail] at h; obtain ⟨rfl, rfl⟩ := h; exact ⟨rfl, Or.inl rfl⟩
    | cons t0 r =>
      cases t0 with
      | plus =>
        simp only [pSumTail] at h
        split at h
        · simp at h; obtain ⟨rfl, rfl⟩ := h; exact ⟨rfl, Or.inl rfl⟩
        · next t r1 h1 =>
          split at h
          · simp at h
          · next l2 r2 h2 =>
            simp only [Option.some.injEq, Prod.mk.injEq] at h
            obtain ⟨rfl, rfl⟩ := h
            obtain ⟨e1, s1⟩ := ih.product _ _ _ h1
            obtain ⟨e2, s2⟩ := ih.sumTail _ _ _ h2
            subst e1; subst e2
            refine ⟨by simp [ySum], ?_⟩
            simpa [ySum] using TSeg.step Tok.plus (op := isPM) rfl s1 s2
              (fun b hb => by simp [Adj, hb]) (fun a b => adj_end_pm)
      | minus =>
        simp only [pSumTail] at h
        split at h
        · simp at h; obtain ⟨rfl, rfl⟩ := h; exact ⟨rfl, Or.inl rfl⟩
        · next t r1 h1 =>
          split at h
          · simp at h
          · next l2 r2 h2 =>
            simp only [Option.some.injEq, Prod.mk.injEq] at h
            obtain ⟨rfl, rfl⟩ := h
            obtain ⟨e1, s1⟩ := ih.product _ _ _ h1
            obtain ⟨e2, s2⟩ := ih.sumTail _ _ _ h2
            subst e1; subst e2
            refine ⟨by simp [ySum], ?_⟩
            simpa [ySum] using TSeg.step Tok.minus (op := isPM) rfl s1 s2
              (fun b hb => by simp [Adj, hb]) (fun a b => adj_end_pm)
      | _ => simp [pSumTail] at h; obtain ⟨rfl, rfl⟩ := h; exact ⟨rfl, Or.inl rfl⟩
  product := by
    intro ts t rest h
    simp only [pProduct] at h
    split at h
    · simp at h
    · next a r1 h1 =>
      split at h
      · simp at h
      · next l r2 h2 =>
        simp only [Option.some.injEq, Prod.mk.injEq] at h
        obtain ⟨rfl, rfl⟩ := h
        obtain ⟨e1, s1⟩ := ih.parallel _ _ _ h1
        obtain ⟨e2, s2⟩ := ih.prodTail _ _ _ h2
        subst e1; subst e2
        rw [yT_mkProd]
        exact ⟨by simp, s1.append_tseg s2 (fun a b => adj_end_ss)⟩
  prodTail := by
    intro ts l rest h
    cases ts with
    | nil => simp [pProdTail] at h; obtain ⟨rfl, rfl⟩ := h; exact ⟨rfl, Or.inl rfl⟩
    | cons t0 r =>
      cases t0 with
      | star =>
        simp only [pProdTail] at h
        split at h
        · simp at h; obtain ⟨rfl, rfl⟩ := h; exact ⟨rfl, Or.inl rfl⟩
        · next t r1 h1 =>
          split at h
          · simp at h
          · next l2 r2 h2 =>
            simp only [Option.some.injEq, Prod.mk.injEq] at h
            obtain ⟨rfl, rfl⟩ := h
            obtain ⟨e1, s1⟩ := ih.parallel _ _ _ h1
            obtain ⟨e2, s2⟩ := ih.prodTail _ _ _ h2
            subst e1; subst e2
            refine ⟨by simp [yProd], ?_⟩
            simpa [yProd] using TSeg.step Tok.star (op := isSS) rfl s1 s2
              (fun b hb => by simp [Adj, hb]) (fun a b => adj_end_ss)
      | slash =>
        simp only [pProdTail] at h
        split at h
        · simp at h; obtain ⟨rfl, rfl⟩ := h; exact ⟨rfl, Or.inl rfl⟩
        · next t r1 h1 =>
          split at h
          · simp at h
          · next l2 r2 h2 =>
            simp only [Option.some.injEq, Prod.mk.injEq] at h
            obtain ⟨rfl, rfl⟩ := h
            obtain ⟨e1, s1⟩ := ih.parallel _ _ _ h1
            obtain ⟨e2, s2⟩ := ih.prodTail _ _ _ h2
            subst e1; subst e2
            refine ⟨by simp [yProd], ?_⟩
            simpa [yProd] using TSeg.step Tok.slash (op := isSS) rfl s1 s2
              (fun b hb => by simp [Adj, hb]) (fun a b => adj_end_ss)
      | _ => simp [pProdTail] at h; obtain ⟨rfl, rfl⟩ := h; exact ⟨rfl, Or.inl rfl⟩
  parallel := by
    intro ts t rest h
    simp only [pParallel] at h
    split at h
    · simp at h
    · next a r1 h1 =>
      split at h
      · simp at h
      · next l r2 h2 =>
        simp only [Option.some.injEq, Prod.mk.injEq] at h
        obtain ⟨rfl, rfl⟩ := h
        obtain ⟨e1, s1⟩ := ih.negation _ _ _ h1
        obtain ⟨e2, s2⟩ := ih.parTail _ _ _ h2
        subst e1; subst e2
        rw [yT_mkPar]
        exact ⟨by simp, s1.append_tseg s2 (fun a b => adj_end_pipe)⟩
  parTail := by
    intro ts l rest h
    by_cases hpp : ∃ r, ts = Tok.pipe :: Tok.pipe :: r
    · obtain ⟨r, rfl⟩ := hpp
      simp only [pParTail] at h
      split at h
      · simp at h; obtain ⟨rfl, rfl⟩ := h; exact ⟨rfl, Or.inl rfl⟩
      · next t r1 h1 =>
        split at h
        · simp at h
        · next l2 r2 h2 =>
          simp only [Option.some.injEq, Prod.mk.injEq] at h
          obtain ⟨rfl, rfl⟩ := h
          obtain ⟨e1, s1⟩ := ih.negation _ _ _ h1
          obtain ⟨e2, s2⟩ := ih.parTail _ _ _ h2
          subst e1; subst e2
          refine ⟨by simp [yPar], ?_⟩
          have s12 := s1.append_tseg s2 (fun a b => adj_end_pipe)
          have sp : Seg isPipe (Tok.pipe :: (yT t ++ yPar l2)) :=
            Seg.cons Tok.pipe s12 rfl (fun b hb => by simp [Adj, hb])
          have spp : Seg isPipe (Tok.pipe :: Tok.pipe :: (yT t ++ yPar l2)) :=
            Seg.cons Tok.pipe sp rfl (fun b hb => by cases b <;> simp_all [Adj, isPipe])
          simpa [yPar] using spp.toTSeg
    · have : pParTail (f + 1) ts = some ([], ts) := by
        cases ts with
        | nil => simp [pParTail]
        | cons t0 r =>
          cases r with
          | nil => cases t0 <;> simp [pParTail]
          | cons t1 r' =>
            cases t0 <;> cases t1 <;> simp_all [pParTail]
      rw [this] at h; simp at h; obtain ⟨rfl, rfl⟩ := h; exact ⟨rfl, Or.inl rfl⟩
  negation := by
    intro ts t rest h
    by_cases hm : ∃ r, ts = Tok.minus :: r
    · obtain ⟨r, rfl⟩ := hm
      simp only [pNegation] at h
      split at h
      · simp at h
      · next t1 r1 h1 =>
        simp only [Option.some.injEq, Prod.mk.injEq] at h
        obtain ⟨rfl, rfl⟩ := h
        obtain ⟨e1, s1⟩ := ih.power _ _ _ h1
        subst e1
        refine ⟨by simp [yT], ?_⟩
        simpa [yT] using Seg.cons (st' := startN) Tok.minus s1 rfl (fun b hb => by simp [Adj, startN, hb])
    · have : pNegation (f + 1) ts = pPower f ts := by
        cases ts with
        | nil => simp [pNegation]
        | cons t0 r => cases t0 <;> simp_all [pNegation]
      rw [this] at h
      obtain ⟨e1, s1⟩ := ih.power _ _ _ h
      exact ⟨e1, s1.mono (fun t => startN_of_startA)⟩
  power := by
    intro ts t rest h
    simp only [pPower] at h
    split at h
    · simp at h
    · next a r1 h1 =>
      split at h
      · simp at h
      · next l r2 h2 =>
        simp only [Option.some.injEq, Prod.mk.injEq] at h
        obtain ⟨rfl, rfl⟩ := h
        obtain ⟨e1, s1⟩ := ih.atom _ _ _ h1
        obtain ⟨e2, s2⟩ := ih.powTail _ _ _ h2
        subst e1; subst e2
        rw [yT_mkPower]
        exact ⟨by simp, s1.append_tseg s2 (fun a b => adj_end_caret)⟩
  powTail := by
    intro ts l rest h
    by_cases hcm : ∃ r, ts = Tok.caret :: Tok.minus :: r
    · obtain ⟨r, rfl⟩ := hcm
      simp only [pPowTail] at h
      split at h
      · simp at h; obtain ⟨rfl, rfl⟩ := h; exact ⟨rfl, Or.inl rfl⟩
      · next t r1 h1 =>
        split at h
        · simp at h
        · next l2 r2 h2 =>
          simp only [Option.some.injEq, Prod.mk.injEq] at h
          obtain ⟨rfl, rfl⟩ := h
          obtain ⟨e1, s1⟩ := ih.atom _ _ _ h1
          obtain ⟨e2, s2⟩ := ih.powTail _ _ _ h2
          subst e1; subst e2
          refine ⟨by simp [yPow], ?_⟩
          have s12 := s1.append_tseg s2 (fun a b => adj_end_caret)
          have sm : Seg (· == Tok.minus) (Tok.minus :: (yT t ++ yPow l2)) :=
            Seg.cons Tok.minus s12 (by simp) (fun b hb => by simp [Adj, startN, hb])
          have sc : Seg isCaret (Tok.caret :: Tok.minus :: (yT t ++ yPow l2)) :=
            Seg.cons Tok.caret sm rfl (fun b hb => by simp at hb; subst hb; rfl)
          simpa [yPow] using sc.toTSeg
    · by_cases hc : ∃ r, ts = Tok.caret :: r
      · obtain ⟨r, rfl⟩ := hc
        have h' : (match pAtom f r with
            | none => some ([], Tok.caret :: r)
            | some (t, r1) => match pPowTail f r1 with
              | none => none
              | some (ts, r2) => some ((false, t) :: ts, r2)) = some (l, rest) := by
          cases r with
          | nil => simp only [pPowTail] at h; exact h
          | cons t1 r' =>
            cases t1 <;> first | (exfalso; exact hcm ⟨_, rfl⟩) | (simp only [pPowTail] at h; exact h)
        split at h'
        · simp at h'; obtain ⟨rfl, rfl⟩ := h'; exact ⟨rfl, Or.inl rfl⟩
        · next t r1 h1 =>
          split at h'
          · simp at h'
          · next l2 r2 h2 =>
            simp only [Option.some.injEq, Prod.mk.injEq] at h'
            obtain ⟨rfl, rfl⟩ := h'
            obtain ⟨e1, s1⟩ := ih.atom _ _ _ h1
            obtain ⟨e2, s2⟩ := ih.powTail _ _ _ h2
            subst e1; subst e2
            refine ⟨by simp [yPow], ?_⟩
            simpa [yPow] using TSeg.step Tok.caret (op := isCaret) rfl s1 s2
              (fun b hb => by simp [Adj, startN, hb]) (fun a b => adj_end_caret)
      · have : pPowTail (f + 1) ts = some ([], ts) := by
          cases ts with
          | nil => simp [pPowTail]
          | cons t0 r => cases t0 <;> simp_all [pPowTail]
        rw [this] at h; simp at h; obtain ⟨rfl, rfl⟩ := h; exact ⟨rfl, Or.inl rfl⟩
  list := by
    intro ts l rest h
    simp only [pList] at h
    split at h
    · simp at h
    · next a r1 h1 =>
      split at h
      · simp at h
      · next l2 r2 h2 =>
        simp only [Option.some.injEq, Prod.mk.injEq] at h
        obtain ⟨rfl, rfl⟩ := h
        obtain ⟨e1, s1⟩ := ih.expr _ _ _ h1
        obtain ⟨e2, s2⟩ := ih.listTail _ _ _ h2
        subst e1; subst e2
        exact ⟨by simp [yL], by simpa [yL] using s1.append_tseg s2 (fun a b => adj_end_comma)⟩
  listTail := by
    intro ts l rest h
    by_cases hc : ∃ r, ts = Tok.comma :: r
    · obtain ⟨r, rfl⟩ := hc
      simp only [pListTail] at h
      split at h
      · simp at h; obtain ⟨rfl, rfl⟩ := h; exact ⟨rfl, Or.inl rfl⟩
      · next t r1 h1 =>
        split at h
        · simp at h
        · next l2 r2 h2 =>
          simp only [Option.some.injEq, Prod.mk.injEq] at h
          obtain ⟨rfl, rfl⟩ := h
          obtain ⟨e1, s1⟩ := ih.expr _ _ _ h1
          obtain ⟨e2, s2⟩ := ih.listTail _ _ _ h2
          subst e1; subst e2
          refine ⟨by simp [yLT], ?_⟩
          simpa [yLT] using TSeg.step Tok.comma (op := isComma) rfl s1 s2
            (fun b hb => by simp [Adj, hb]) (fun a b => adj_end_comma)
    · have : pListTail (f + 1) ts = some ([], ts) := by
        cases ts with
        | nil => simp [pListTail]
        | cons t0 r => cases t0 <;> simp_all [pListTail]
      rw [this] at h; simp at h; obtain ⟨rfl, rfl⟩ := h; exact ⟨rfl, Or.inl rfl⟩
  atom := by
    intro ts t rest h
    cases ts with
    | nil => simp [pAtom] at h
    | cons t0 r =>
      cases t0 with
      | num txt suf =>
        simp [pAtom] at h; obtain ⟨rfl, rfl⟩ := h
        exact ⟨by simp [yT], ⟨⟨_, rfl, rfl⟩, ⟨_, rfl, rfl⟩, rfl⟩⟩
      | name s =>
        by_cases hl : ∃ r', r = Tok.lp :: r'
        · obtain ⟨r', rfl⟩ := hl
          simp only [pAtom] at h
          split at h
          · next args r2 h1 =>
            simp only [Option.some.injEq, Prod.mk.injEq] at h
            obtain ⟨rfl, rfl⟩ := h
            obtain ⟨e1, s1⟩ := ih.list _ _ _ h1
            subst e1
            refine ⟨by simp [yT], ?_⟩
            have sb := Seg.bracket Tok.lp Tok.rp s1 (fun b hb => by simp [Adj, hb]) rfl (fun a => adj_end_rp)
            simpa [yT] using Seg.cons (st' := startA) (Tok.name s) sb rfl (fun b hb => by simp at hb; subst hb; rfl)
          · simp only [Option.some.injEq, Prod.mk.injEq] at h
            obtain ⟨rfl, rfl⟩ := h
            exact ⟨by simp [yT], ⟨⟨_, rfl, rfl⟩, ⟨_, rfl, rfl⟩, rfl⟩⟩
        · have : pAtom (f + 1) (Tok.name s :: r) = some (T.var s, r) := by
            cases r with
            | nil => simp [pAtom]
            | cons t1 r' => cases t1 <;> simp_all [pAtom]
          rw [this] at h; simp at h; obtain ⟨rfl, rfl⟩ := h
          exact ⟨by simp [yT], ⟨⟨_, rfl, rfl⟩, ⟨_, rfl, rfl⟩, rfl⟩⟩
      | lp =>
        simp only [pAtom] at h
        split at h
        · next t1 r2 h1 =>
          simp only [Option.some.injEq, Prod.mk.injEq] at h
          obtain ⟨rfl, rfl⟩ := h
          obtain ⟨e1, s1⟩ := ih.expr _ _ _ h1
          subst e1
          refine ⟨by simp [yT], ?_⟩
          have sb := Seg.bracket Tok.lp Tok.rp s1 (fun b hb => by simp [Adj, hb]) rfl (fun a => adj_end_rp)
          simpa [yT] using sb.mono (fun t ht => by simp at ht; subst ht; rfl)
        · simp at h
      | lb =>
        simp only [pAtom] at h
        split at h
        · next t1 r2 h1 =>
          simp only [Option.some.injEq, Prod.mk.injEq] at h
          obtain ⟨rfl, rfl⟩ := h
          obtain ⟨e1, s1⟩ := ih.list _ _ _ h1
          subst e1
          refine ⟨by simp [yT], ?_⟩
          have sb := Seg.bracket Tok.lb Tok.rb s1 (fun b hb => by simp [Adj, hb]) rfl (fun a => adj_end_rb)
          simpa [yT] using sb.mono (fun t ht => by simp at ht; subst ht; rfl)
        · simp at h
      | _ => simp [pAtom] at h

theorem snd_all : ∀ f, Snd f
  | 0 => snd_zero
  | f + 1 => snd_succ (snd_all f)

/-- a complete parse consumed exactly the token string of its tree, and that string is locally well formed -/
theorem parseToks_sound {ts : List Tok} {t : T} (h : parseToks ts = some t) : ts = yT t ∧ Seg startE ts := by
  unfold parseToks at h
  split at h
  · next t' heq =>
    simp only [Option.some.injEq] at h; subst h
    obtain ⟨e, s⟩ := (snd_all _).expr _ _ _ heq
    simp only [List.append_nil] at e
    exact ⟨e, e ▸ s⟩
  · simp at h

theorem parseToks_bad_pair (pre post : List Tok) (a b : Tok) (hab : Adj a b = false) :
    parseToks (pre ++ a :: b :: post) = none := by
  cases h : parseToks (pre ++ a :: b :: post) with
  | none => rfl
  | some t =>
    have := (parseToks_sound h).2.2.2
    rw [chainOK_bad_pair pre post a b hab] at this
    simp at this

theorem parseToks_bad_start (t0 : Tok) (r : List Tok) (h0 : startE t0 = false) : parseToks (t0 :: r) = none := by
  cases h : parseToks (t0 :: r) with
  | none => rfl
  | some t =>
    obtain ⟨x, hx, hs⟩ := (parseToks_sound h).2.1
    simp at hx; subst hx; simp [h0] at hs

theorem parseToks_bad_end (pre : List Tok) (l : Tok) (hl : opndEnd l = false) : parseToks (pre ++ [l]) = none := by
  cases h : parseToks (pre ++ [l]) with
  | none => rfl
  | some t =>
    obtain ⟨x, hx, hs⟩ := (parseToks_sound h).2.2.1
    rw [lastT_snoc] at hx; simp at hx; subst hx; simp [hl] at hs

theorem parseToks_nil : parseToks [] = none := by
  cases h : parseToks [] with
  | none => rfl
  | some t =>
    obtain ⟨x, hx, _⟩ := (parseToks_sound h).2.1
    simp at hx

end C03

import Mitx.Parser.Syntax
namespace C03

/-- any interpretation of the operators (ℚ, floats, arrays …) -/
structure Alg (V : Type) where
  num : String → Option String → V
  var : String → V
  call : String → List V → V
  arr : List V → V
  add : V → V → V
  sub : V → V → V
  mul : V → V → V
  div : V → V → V
  pow : V → V → V
  neg : V → V
  par : List V → V

variable {V : Type} (A : Alg V)

/-- value of an exponent chain, right to left with sign flips (eval_power) -/
def expo : List (Bool × V) → Option V
  | [] => none
  | (s, e) :: rest =>
    let inner := match expo rest with
      | none => e
      | some r => A.pow e r
    some (if s then A.neg inner else inner)

def prodStep (acc : V) (p : Bool × V) : V := if p.1 then A.div acc p.2 else A.mul acc p.2
def sumStep (acc : V) (p : Bool × V) : V := if p.1 then A.sub acc p.2 else A.add acc p.2

mutual
def evalT : T → V
  | .num txt suf => A.num txt suf
  | .var s => A.var s
  | .call f args => A.call f (evalL args)
  | .arr xs => A.arr (evalL xs)
  | .paren t => evalT t
  | .power b rest => match expo A (evalP rest) with
      | none => evalT b
      | some r => A.pow (evalT b) r
  | .neg t => A.neg (evalT t)
  | .par a rest => A.par (evalT a :: evalL rest)
  | .prod a rest => (evalP rest).foldl (prodStep A) (evalT a)
  | .sum _ a rest => (evalP rest).foldl (sumStep A) (evalT a)
def evalL : List T → List V
  | [] => []
  | t :: ts => evalT t :: evalL ts
def evalP : List (Bool × T) → List (Bool × V)
  | [] => []
  | (b, t) :: ts => (b, evalT t) :: evalP ts
end

/-- mathematical expression trees -/
inductive E
  | num (txt : String) (suf : Option String)
  | var (s : String)
  | call (f : String) (a : E) (rest : List E)
  | arr (a : E) (rest : List E)
  | neg (e : E)
  | pow (b e : E)
  | par (a b : E) (rest : List E)
  | mul (a b : E) | div (a b : E) | add (a b : E) | sub (a b : E)
  deriving Repr, Inhabited

mutual
def denote : E → V
  | .num txt suf => A.num txt suf
  | .var s => A.var s
  | .call f a rest => A.call f (denote a :: denoteL rest)
  | .arr a rest => A.arr (denote a :: denoteL rest)
  | .neg e => A.neg (denote e)
  | .pow b e => A.pow (denote b) (denote e)
  | .par a b rest => A.par (denote a :: denote b :: denoteL rest)
  | .mul a b => A.mul (denote a) (denote b)
  | .div a b => A.div (denote a) (denote b)
  | .add a b => A.add (denote a) (denote b)
  | .sub a b => A.sub (denote a) (denote b)
def denoteL : List E → List V
  | [] => []
  | e :: es => denote e :: denoteL es
end

end C03

import Mitx.Parser.Compose
namespace C03
variable {V : Type} (A : Alg V)

/-- all seven phrase facts for a parenthesised phrase -/
theorem parens_all {core : List Tok} {v : V} (h0 : PA0 A core v) :
    PA5 A (Tok.lp :: core ++ [Tok.rp]) v ∧ PA4 A (Tok.lp :: core ++ [Tok.rp]) v ∧
    PA3 A (Tok.lp :: core ++ [Tok.rp]) v ∧ PA2 A (Tok.lp :: core ++ [Tok.rp]) v ∧
    PA1 A (Tok.lp :: core ++ [Tok.rp]) v ∧ PA0 A (Tok.lp :: core ++ [Tok.rp]) v ∧
    PowX A (Tok.lp :: core ++ [Tok.rp]) v := by
  have h5 := paren50 A h0
  have hne : (Tok.lp :: core ++ [Tok.rp]) ≠ [] := by simp
  have hm : headNot .minus (Tok.lp :: core ++ [Tok.rp]) := by simp [headNot]
  have hp : headNot .plus (Tok.lp :: core ++ [Tok.rp]) := by simp [headNot]
  have h4 := lift54 A h5
  have h3 := lift43 A hne hm h4
  have h2 := lift32 A h3
  have h1 := lift21 A h2
  exact ⟨h5, h4, h3, h2, h1, lift10 A hne hp h1, powX_atom A hne hm h5⟩

structure HeadOK (k : Nat) (L : List Tok) : Prop where
  ne : L ≠ []
  noPlus : headNot .plus L
  noMinus : 4 ≤ k → headNot .minus L

theorem headOK_paren (k : Nat) (core : List Tok) : HeadOK k (Tok.lp :: core ++ [Tok.rp]) :=
  ⟨by simp, by simp [headNot], fun _ => by simp [headNot]⟩

theorem headNot_append {tk : Tok} {L M : List Tok} (hne : L ≠ []) (h : headNot tk L) : headNot tk (L ++ M) := by
  cases L with
  | nil => exact (hne rfl).elim
  | cons t r => simpa [headNot] using h

theorem at_le {r : R} {k : Nat} (h : k ≤ r.lvl) : r.at k = r.core := by simp [R.at, h]
theorem at_gt {r : R} {k : Nat} (h : r.lvl < k) : r.at k = Tok.lp :: r.core ++ [Tok.rp] := by
  simp [R.at]; omega

theorem headOK_core {r : R} {k : Nat} (hne : r.core ≠ []) (hp : headNot .plus r.core)
    (hm : 4 ≤ r.lvl → headNot .minus r.core) : HeadOK k (r.at k) := by
  by_cases hk : k ≤ r.lvl
  · rw [at_le hk]; exact ⟨hne, hp, fun h4 => hm (by omega)⟩
  · rw [at_gt (by omega)]; exact headOK_paren k r.core

/-- head tokens of renderings -/
theorem headOK : ∀ (e : E) (k : Nat), HeadOK k ((ra e).at k)
  | .num txt suf, k => headOK_core (by simp [ra]) (by simp [ra, headNot]) (fun _ => by simp [ra, headNot])
  | .var s, k => headOK_core (by simp [ra]) (by simp [ra, headNot]) (fun _ => by simp [ra, headNot])
  | .call f a rest, k => headOK_core (by simp [ra]) (by simp [ra, headNot]) (fun _ => by simp [ra, headNot])
  | .arr a rest, k => headOK_core (by simp [ra]) (by simp [ra, headNot]) (fun _ => by simp [ra, headNot])
  | .pow b e, k => by
    have hb := headOK b 5
    refine headOK_core (r := ra (.pow b e)) ?_ ?_ ?_
    · simp [ra, hb.ne]
    · simp only [ra]; exact headNot_append hb.ne hb.noPlus
    · intro _; simp only [ra]; exact headNot_append hb.ne (hb.noMinus (by omega))
  | .par a b rest, k => by
    have ha := headOK a 3
    refine headOK_core (r := ra (.par a b rest)) ?_ ?_ ?_
    · simp [ra, ha.ne]
    · simp only [ra, List.append_assoc]; exact headNot_append ha.ne ha.noPlus
    · intro h; simp [ra] at h
  | .mul a b, k => by
    have ha := headOK a 1
    refine headOK_core (r := ra (.mul a b)) ?_ ?_ ?_
    · simp [ra, ha.ne]
    · simp only [ra]; exact headNot_append ha.ne ha.noPlus
    · intro h; simp [ra] at h
  | .div a b, k => by
    have ha := headOK a 1
    refine headOK_core (r := ra (.div a b)) ?_ ?_ ?_
    · simp [ra, ha.ne]
    · simp only [ra]; exact headNot_append ha.ne ha.noPlus
    · intro h; simp [ra] at h
  | .add a b, k => by
    have ha := headOK a 0
    refine headOK_core (r := ra (.add a b)) ?_ ?_ ?_
    · simp [ra, ha.ne]
    · simp only [ra]; exact headNot_append ha.ne ha.noPlus
    · intro h; simp [ra] at h
  | .sub a b, k => by
    have ha := headOK a 0
    refine headOK_core (r := ra (.sub a b)) ?_ ?_ ?_
    · simp [ra, ha.ne]
    · simp only [ra]; exact headNot_append ha.ne ha.noPlus
    · intro h; simp [ra] at h
  | .neg x, k => by
    refine headOK_core (r := ra (.neg x)) ?_ ?_ ?_
    · cases x <;> simp [ra]
    · cases x <;> simp [ra, headNot]
    · intro h; cases x <;> simp [ra] at h

structure Good (e : E) : Prop where
  g0 : PA0 A ((ra e).at 0) (denote A e)
  g1 : PA1 A ((ra e).at 1) (denote A e)
  g2 : PA2 A ((ra e).at 2) (denote A e)
  g3 : PA3 A ((ra e).at 3) (denote A e)
  g4 : PA4 A ((ra e).at 4) (denote A e)
  g5 : PA5 A ((ra e).at 5) (denote A e)
  gX : PowX A (ra e).expo (denote A e)
  sumForm : ∃ (L0 : List Tok) (v0 : V) (items : List (Item V)), (ra e).at 0 = L0 ++ sumToks items ∧ PA1 A L0 v0 ∧
      (∀ i ∈ items, PA1 A i.2.1 i.2.2) ∧
      denote A e = (items.map (fun i => (i.1, i.2.2))).foldl (sumStep A) v0 ∧ L0 ≠ [] ∧ headNot .plus L0
  prodForm : ∃ (L0 : List Tok) (v0 : V) (items : List (Item V)), (ra e).at 1 = L0 ++ prodToks items ∧ PA2 A L0 v0 ∧
      (∀ i ∈ items, PA2 A i.2.1 i.2.2) ∧
      denote A e = (items.map (fun i => (i.1, i.2.2))).foldl (prodStep A) v0

theorem sumToks_nil : sumToks ([] : List (Item V)) = [] := rfl
theorem prodToks_nil : prodToks ([] : List (Item V)) = [] := rfl

/-- trivial sum/product forms -/
theorem sumForm_triv {e : E} (h01 : (ra e).at 0 = (ra e).at 1) (h1 : PA1 A ((ra e).at 1) (denote A e)) :
    ∃ (L0 : List Tok) (v0 : V) (items : List (Item V)), (ra e).at 0 = L0 ++ sumToks items ∧ PA1 A L0 v0 ∧
      (∀ i ∈ items, PA1 A i.2.1 i.2.2) ∧
      denote A e = (items.map (fun i => (i.1, i.2.2))).foldl (sumStep A) v0 ∧ L0 ≠ [] ∧ headNot .plus L0 :=
  ⟨(ra e).at 1, denote A e, [], by simp [sumToks_nil, h01], h1, by simp, by simp, (headOK e 1).ne, (headOK e 1).noPlus⟩
theorem prodForm_triv {e : E} (h12 : (ra e).at 1 = (ra e).at 2) (h2 : PA2 A ((ra e).at 2) (denote A e)) :
    ∃ (L0 : List Tok) (v0 : V) (items : List (Item V)), (ra e).at 1 = L0 ++ prodToks items ∧ PA2 A L0 v0 ∧
      (∀ i ∈ items, PA2 A i.2.1 i.2.2) ∧
      denote A e = (items.map (fun i => (i.1, i.2.2))).foldl (prodStep A) v0 :=
  ⟨(ra e).at 2, denote A e, [], by simp [prodToks_nil, h12], h2, by simp, by simp⟩

/-- build `Good` for an atom-level expression -/
theorem good5 {e : E} (hl : (ra e).lvl = 5) (hx : (ra e).expo = (ra e).core)
    (h5 : PA5 A (ra e).core (denote A e)) : Good A e := by
  have hk : ∀ k, k ≤ 5 → (ra e).at k = (ra e).core := fun k hk => at_le (by omega)
  have hh := headOK e 5
  rw [hk 5 (by omega)] at hh
  have h4 := lift54 A h5
  have h3 := lift43 A hh.ne (hh.noMinus (by omega)) h4
  have h2 := lift32 A h3
  have h1 := lift21 A h2
  have h0 := lift10 A hh.ne hh.noPlus h1
  refine ⟨by rw [hk 0 (by omega)]; exact h0, by rw [hk 1 (by omega)]; exact h1, by rw [hk 2 (by omega)]; exact h2,
    by rw [hk 3 (by omega)]; exact h3, by rw [hk 4 (by omega)]; exact h4, by rw [hk 5 (by omega)]; exact h5,
    by rw [hx]; exact powX_atom A hh.ne (hh.noMinus (by omega)) h5, ?_, ?_⟩
  · exact sumForm_triv A (by rw [hk 0 (by omega), hk 1 (by omega)]) (by rw [hk 1 (by omega)]; exact h1)
  · exact prodForm_triv A (by rw [hk 1 (by omega), hk 2 (by omega)]) (by rw [hk 2 (by omega)]; exact h2)

theorem good4 {e : E} (hl : (ra e).lvl = 4) (h4 : PA4 A (ra e).core (denote A e))
    (hX : PowX A (ra e).expo (denote A e)) : Good A e := by
  have hk : ∀ k, k ≤ 4 → (ra e).at k = (ra e).core := fun k hk => at_le (by omega)
  have h5p : (ra e).at 5 = Tok.lp :: (ra e).core ++ [Tok.rp] := at_gt (by omega)
  have hh := headOK e 4
  rw [hk 4 (by omega)] at hh
  have h3 := lift43 A hh.ne (hh.noMinus (by omega)) h4
  have h2 := lift32 A h3
  have h1 := lift21 A h2
  have h0 := lift10 A hh.ne hh.noPlus h1
  have hp := parens_all A h0
  refine ⟨by rw [hk 0 (by omega)]; exact h0, by rw [hk 1 (by omega)]; exact h1, by rw [hk 2 (by omega)]; exact h2,
    by rw [hk 3 (by omega)]; exact h3, by rw [hk 4 (by omega)]; exact h4, by rw [h5p]; exact hp.1, hX, ?_, ?_⟩
  · exact sumForm_triv A (by rw [hk 0 (by omega), hk 1 (by omega)]) (by rw [hk 1 (by omega)]; exact h1)
  · exact prodForm_triv A (by rw [hk 1 (by omega), hk 2 (by omega)]) (by rw [hk 2 (by omega)]; exact h2)

theorem good3 {e : E} (hl : (ra e).lvl = 3) (h3 : PA3 A (ra e).core (denote A e))
    (hX : PowX A (ra e).expo (denote A e)) : Good A e := by
  have hk : ∀ k, k ≤ 3 → (ra e).at k = (ra e).core := fun k hk => at_le (by omega)
  have hkp : ∀ k, 3 < k → (ra e).at k = Tok.lp :: (ra e).core ++ [Tok.rp] := fun k hk => at_gt (by omega)
  have hh := headOK e 3
  rw [hk 3 (by omega)] at hh
  have h2 := lift32 A h3
  have h1 := lift21 A h2
  have h0 := lift10 A hh.ne hh.noPlus h1
  have hp := parens_all A h0
  refine ⟨by rw [hk 0 (by omega)]; exact h0, by rw [hk 1 (by omega)]; exact h1, by rw [hk 2 (by omega)]; exact h2,
    by rw [hk 3 (by omega)]; exact h3, by rw [hkp 4 (by omega)]; exact hp.2.1, by rw [hkp 5 (by omega)]; exact hp.1, hX, ?_, ?_⟩
  · exact sumForm_triv A (by rw [hk 0 (by omega), hk 1 (by omega)]) (by rw [hk 1 (by omega)]; exact h1)
  · exact prodForm_triv A (by rw [hk 1 (by omega), hk 2 (by omega)]) (by rw [hk 2 (by omega)]; exact h2)

theorem good2 {e : E} (hl : (ra e).lvl = 2) (hx : (ra e).expo = Tok.lp :: (ra e).core ++ [Tok.rp])
    (h2 : PA2 A (ra e).core (denote A e)) : Good A e := by
  have hk : ∀ k, k ≤ 2 → (ra e).at k = (ra e).core := fun k hk => at_le (by omega)
  have hkp : ∀ k, 2 < k → (ra e).at k = Tok.lp :: (ra e).core ++ [Tok.rp] := fun k hk => at_gt (by omega)
  have hh := headOK e 2
  rw [hk 2 (by omega)] at hh
  have h1 := lift21 A h2
  have h0 := lift10 A hh.ne hh.noPlus h1
  have hp := parens_all A h0
  refine ⟨by rw [hk 0 (by omega)]; exact h0, by rw [hk 1 (by omega)]; exact h1, by rw [hk 2 (by omega)]; exact h2,
    by rw [hkp 3 (by omega)]; exact hp.2.2.1, by rw [hkp 4 (by omega)]; exact hp.2.1, by rw [hkp 5 (by omega)]; exact hp.1,
    by rw [hx]; exact hp.2.2.2.2.2.2, ?_, ?_⟩
  · exact sumForm_triv A (by rw [hk 0 (by omega), hk 1 (by omega)]) (by rw [hk 1 (by omega)]; exact h1)
  · exact prodForm_triv A (by rw [hk 1 (by omega), hk 2 (by omega)]) (by rw [hk 2 (by omega)]; exact h2)

theorem good1 {e : E} (hl : (ra e).lvl = 1) (hx : (ra e).expo = Tok.lp :: (ra e).core ++ [Tok.rp])
    (h1 : PA1 A (ra e).core (denote A e))
    (hpf : ∃ (L0 : List Tok) (v0 : V) (items : List (Item V)), (ra e).core = L0 ++ prodToks items ∧ PA2 A L0 v0 ∧
      (∀ i ∈ items, PA2 A i.2.1 i.2.2) ∧
      denote A e = (items.map (fun i => (i.1, i.2.2))).foldl (prodStep A) v0) : Good A e := by
  have hk : ∀ k, k ≤ 1 → (ra e).at k = (ra e).core := fun k hk => at_le (by omega)
  have hkp : ∀ k, 1 < k → (ra e).at k = Tok.lp :: (ra e).core ++ [Tok.rp] := fun k hk => at_gt (by omega)
  have hh := headOK e 1
  rw [hk 1 (by omega)] at hh
  have h0 := lift10 A hh.ne hh.noPlus h1
  have hp := parens_all A h0
  refine ⟨by rw [hk 0 (by omega)]; exact h0, by rw [hk 1 (by omega)]; exact h1, by rw [hkp 2 (by omega)]; exact hp.2.2.2.1,
    by rw [hkp 3 (by omega)]; exact hp.2.2.1, by rw [hkp 4 (by omega)]; exact hp.2.1, by rw [hkp 5 (by omega)]; exact hp.1,
    by rw [hx]; exact hp.2.2.2.2.2.2, ?_, ?_⟩
  · exact sumForm_triv A (by rw [hk 0 (by omega), hk 1 (by omega)]) (by rw [hk 1 (by omega)]; exact h1)
  · rw [hk 1 (by omega)]; exact hpf

theorem good0 {e : E} (hl : (ra e).lvl = 0) (hx : (ra e).expo = Tok.lp :: (ra e).core ++ [Tok.rp])
    (h0 : PA0 A (ra e).core (denote A e))
    (hsf : ∃ (L0 : List Tok) (v0 : V) (items : List (Item V)), (ra e).core = L0 ++ sumToks items ∧ PA1 A L0 v0 ∧
      (∀ i ∈ items, PA1 A i.2.1 i.2.2) ∧
      denote A e = (items.map (fun i => (i.1, i.2.2))).foldl (sumStep A) v0 ∧ L0 ≠ [] ∧ headNot .plus L0) : Good A e := by
  have hk : ∀ k, k ≤ 0 → (ra e).at k = (ra e).core := fun k hk => at_le (by omega)
  have hkp : ∀ k, 0 < k → (ra e).at k = Tok.lp :: (ra e).core ++ [Tok.rp] := fun k hk => at_gt (by omega)
  have hp := parens_all A h0
  refine ⟨by rw [hk 0 (by omega)]; exact h0, by rw [hkp 1 (by omega)]; exact hp.2.2.2.2.1, by rw [hkp 2 (by omega)]; exact hp.2.2.2.1,
    by rw [hkp 3 (by omega)]; exact hp.2.2.1, by rw [hkp 4 (by omega)]; exact hp.2.1, by rw [hkp 5 (by omega)]; exact hp.1,
    by rw [hx]; exact hp.2.2.2.2.2.2, ?_, ?_⟩
  · rw [hk 0 (by omega)]; exact hsf
  · exact prodForm_triv A (by rw [hkp 1 (by omega), hkp 2 (by omega)]) (by rw [hkp 2 (by omega)]; exact hp.2.2.2.1)

end C03

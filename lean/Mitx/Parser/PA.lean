import Mitx.Parser.Render
namespace C03
variable {V : Type} (A : Alg V)

/-! continuation conditions: what may follow a complete phrase of each level -/
def ok5 : List Tok → Prop
  | .lp :: _ => False
  | _ => True
def ok4 : List Tok → Prop
  | .lp :: _ => False
  | .caret :: _ => False
  | _ => True
def ok2 : List Tok → Prop
  | .lp :: _ => False
  | .caret :: _ => False
  | .pipe :: _ => False
  | _ => True
def ok1 : List Tok → Prop
  | .lp :: _ => False
  | .caret :: _ => False
  | .pipe :: _ => False
  | .star :: _ => False
  | .slash :: _ => False
  | _ => True
def ok0 : List Tok → Prop
  | .lp :: _ => False
  | .caret :: _ => False
  | .pipe :: _ => False
  | .star :: _ => False
  | .slash :: _ => False
  | .plus :: _ => False
  | .minus :: _ => False
  | _ => True

theorem ok4_of_ok2 {r} (h : ok2 r) : ok4 r := by
  cases r with | nil => trivial | cons t _ => cases t <;> simp_all [ok2, ok4]
theorem ok5_of_ok4 {r} (h : ok4 r) : ok5 r := by
  cases r with | nil => trivial | cons t _ => cases t <;> simp_all [ok4, ok5]
theorem ok2_of_ok1 {r} (h : ok1 r) : ok2 r := by
  cases r with | nil => trivial | cons t _ => cases t <;> simp_all [ok1, ok2]
theorem ok1_of_ok0 {r} (h : ok0 r) : ok1 r := by
  cases r with | nil => trivial | cons t _ => cases t <;> simp_all [ok0, ok1]

/-- "L is a complete phrase for parser `p` with value `v`, whatever follows (subject to `ok`)" -/
def PA (p : Nat → List Tok → Res T) (ok : List Tok → Prop) (L : List Tok) (v : V) : Prop :=
  ∃ F, ∀ f, F ≤ f → ∀ rest, ok rest → ∃ t, p f (L ++ rest) = some (t, rest) ∧ evalT A t = v

abbrev PA5 := PA A pAtom ok5
abbrev PA4 := PA A pPower ok4
abbrev PA3 := PA A pNegation ok4
abbrev PA2 := PA A pParallel ok2
abbrev PA1 := PA A pProduct ok1
abbrev PA0 := PA A pExpr ok0

/-! empty tails -/
theorem powTail_nil {f : Nat} {r : List Tok} (h : ok4 r) : pPowTail (f+1) r = some ([], r) := by
  cases r with
  | nil => simp [pPowTail]
  | cons t r => cases t <;> simp_all [pPowTail, ok4]
theorem parTail_nil {f : Nat} {r : List Tok} (h : ok2 r) : pParTail (f+1) r = some ([], r) := by
  cases r with
  | nil => simp [pParTail]
  | cons t r => cases t <;> simp_all [pParTail, ok2]
theorem prodTail_nil {f : Nat} {r : List Tok} (h : ok1 r) : pProdTail (f+1) r = some ([], r) := by
  cases r with
  | nil => simp [pProdTail]
  | cons t r => cases t <;> simp_all [pProdTail, ok1]
theorem sumTail_nil {f : Nat} {r : List Tok} (h : ok0 r) : pSumTail (f+1) r = some ([], r) := by
  cases r with
  | nil => simp [pSumTail]
  | cons t r => cases t <;> simp_all [pSumTail, ok0]

/-! lifting a phrase to the next-looser level -/
theorem lift54 {L : List Tok} {v : V} (h : PA5 A L v) : PA4 A L v := by
  obtain ⟨F, hF⟩ := h
  refine ⟨F + 2, fun f hf rest hr => ?_⟩
  obtain ⟨f', rfl⟩ : ∃ f', f = f' + 2 := ⟨f - 2, by omega⟩
  obtain ⟨t, ht, hv⟩ := hF (f' + 1) (by omega) rest (ok5_of_ok4 hr)
  refine ⟨t, ?_, hv⟩
  simp [pPower, ht, powTail_nil hr, mkPower]

def headNot (tk : Tok) : List Tok → Prop
  | t :: _ => t ≠ tk
  | [] => True

theorem lift43 {L : List Tok} {v : V} (hne : L ≠ []) (hm : headNot .minus L) (h : PA4 A L v) : PA3 A L v := by
  obtain ⟨F, hF⟩ := h
  refine ⟨F + 1, fun f hf rest hr => ?_⟩
  obtain ⟨f', rfl⟩ : ∃ f', f = f' + 1 := ⟨f - 1, by omega⟩
  obtain ⟨t, ht, hv⟩ := hF f' (by omega) rest hr
  refine ⟨t, ?_, hv⟩
  cases L with
  | nil => exact (hne rfl).elim
  | cons t0 L' =>
    cases t0 <;> simp_all [pNegation, headNot]

theorem lift32 {L : List Tok} {v : V} (h : PA3 A L v) : PA2 A L v := by
  obtain ⟨F, hF⟩ := h
  refine ⟨F + 2, fun f hf rest hr => ?_⟩
  obtain ⟨f', rfl⟩ : ∃ f', f = f' + 2 := ⟨f - 2, by omega⟩
  obtain ⟨t, ht, hv⟩ := hF (f' + 1) (by omega) rest (ok4_of_ok2 hr)
  refine ⟨t, ?_, hv⟩
  simp [pParallel, ht, parTail_nil hr, mkPar]

theorem lift21 {L : List Tok} {v : V} (h : PA2 A L v) : PA1 A L v := by
  obtain ⟨F, hF⟩ := h
  refine ⟨F + 2, fun f hf rest hr => ?_⟩
  obtain ⟨f', rfl⟩ : ∃ f', f = f' + 2 := ⟨f - 2, by omega⟩
  obtain ⟨t, ht, hv⟩ := hF (f' + 1) (by omega) rest (ok2_of_ok1 hr)
  refine ⟨t, ?_, hv⟩
  simp [pProduct, ht, prodTail_nil hr, mkProd]

theorem lift10 {L : List Tok} {v : V} (hne : L ≠ []) (hp : headNot .plus L) (h : PA1 A L v) : PA0 A L v := by
  obtain ⟨F, hF⟩ := h
  refine ⟨F + 2, fun f hf rest hr => ?_⟩
  obtain ⟨f', rfl⟩ : ∃ f', f = f' + 2 := ⟨f - 2, by omega⟩
  obtain ⟨t, ht, hv⟩ := hF (f' + 1) (by omega) rest (ok1_of_ok0 hr)
  refine ⟨t, ?_, hv⟩
  cases L with
  | nil => exact (hne rfl).elim
  | cons t0 L' =>
    cases t0 <;> simp_all [pExpr, headNot, sumTail_nil hr, mkSum]

/-- parenthesised phrase is an atom -/
theorem paren50 {L : List Tok} {v : V} (h : PA0 A L v) : PA5 A (Tok.lp :: L ++ [Tok.rp]) v := by
  obtain ⟨F, hF⟩ := h
  refine ⟨F + 1, fun f hf rest _ => ?_⟩
  obtain ⟨f', rfl⟩ : ∃ f', f = f' + 1 := ⟨f - 1, by omega⟩
  obtain ⟨t, ht, hv⟩ := hF f' (by omega) (Tok.rp :: rest) (by simp [ok0])
  refine ⟨.paren t, ?_, by simp [evalT, hv]⟩
  simp [pAtom, ht]

end C03

import Mitx.Parser.Usage
import Mitx.Parser.Tails
namespace C03

def Clean (sc sc' nm : Sc) : Prop := ∀ x, x ∈ sc' ↔ x ∈ sc ∨ x ∈ nm

theorem Clean.refl (sc : Sc) : Clean sc sc [] := fun x => by simp
theorem Clean.trans {sc sc1 sc2 n1 n2 : Sc} (h1 : Clean sc sc1 n1) (h2 : Clean sc1 sc2 n2) : Clean sc sc2 (n1 ++ n2) := by
  intro x; rw [h2 x, h1 x]; simp [or_assoc]
theorem Clean.snoc (sc : Sc) (y : Kind × String) : Clean sc (sc ++ [y]) [y] := fun x => by simp
theorem Clean.congr {sc sc' n n' : Sc} (h : Clean sc sc' n) (e : n = n') : Clean sc sc' n' := e ▸ h
theorem clean_addSuf (sc : Sc) (s : Option String) : Clean sc (addSuf sc s) (addSuf [] s) := by
  cases s <;> simp [addSuf, Clean]

theorem names_mkSum (l : Bool) (a : T) (rest : List (Bool × T)) : names (mkSum l a rest) = names a ++ namesP rest := by
  unfold mkSum; split <;> simp_all [names, namesP]
theorem names_mkProd (a : T) (rest : List (Bool × T)) : names (mkProd a rest) = names a ++ namesP rest := by
  unfold mkProd; split <;> simp_all [names, namesP]
theorem names_mkPar (a : T) (rest : List T) : names (mkPar a rest) = names a ++ namesL rest := by
  unfold mkPar; split <;> simp_all [names, namesL]
theorem names_mkPower (a : T) (rest : List (Bool × T)) : names (mkPower a rest) = names a ++ namesP rest := by
  unfold mkPower; split <;> simp_all [names, namesP]

/-- result invariant: either the scratch grew by exactly the names of the result, or the unconsumed
    input starts with a token the caller cannot consume (so the whole parse is doomed) -/
def InvG {α : Type} (nm : α → Sc) (ok : List Tok → Prop) (sc : Sc) : QRes α → Prop
  | (some (t, rest), sc') => Clean sc sc' (nm t) ∨ ¬ ok rest
  | (none, _) => True
abbrev InvT := InvG names
abbrev InvP := InvG namesP
abbrev InvL := InvG namesL

structure Inv (f : Nat) : Prop where
  expr : ∀ ts sc, InvT ok0 sc (qExpr f ts sc)
  sumTail : ∀ ts sc, InvP ok0 sc (qSumTail f ts sc)
  product : ∀ ts sc, InvT ok1 sc (qProduct f ts sc)
  prodTail : ∀ ts sc, InvP ok1 sc (qProdTail f ts sc)
  parallel : ∀ ts sc, InvT ok2 sc (qParallel f ts sc)
  parTail : ∀ ts sc, InvL ok2 sc (qParTail f ts sc)
  negation : ∀ ts sc, InvT ok4 sc (qNegation f ts sc)
  power : ∀ ts sc, InvT ok4 sc (qPower f ts sc)
  powTail : ∀ ts sc, InvP ok4 sc (qPowTail f ts sc)
  list : ∀ ts sc, InvL okL sc (qList f ts sc)
  listTail : ∀ ts sc, InvL okL sc (qListTail f ts sc)
  atom : ∀ ts sc, InvT ok5 sc (qAtom f ts sc)

theorem inv_zero : Inv 0 := by
  constructor <;> intro ts sc <;> simp [qExpr, qSumTail, qProduct, qProdTail, qParallel, qParTail, qNegation,
    qPower, qPowTail, qList, qListTail, qAtom, InvG]

/-! tails do nothing on a stuck continuation -/
theorem powTail_stuck {f : Nat} {r : List Tok} (sc : Sc) (h : ¬ ok5 r) :
    qPowTail f r sc = (none, sc) ∨ qPowTail f r sc = (some ([], r), sc) := by
  cases f with
  | zero => left; simp [qPowTail]
  | succ f =>
    right
    cases r with
    | nil => simp [ok5] at h
    | cons t r => cases t <;> simp_all [qPowTail, ok5]
theorem parTail_stuck {f : Nat} {r : List Tok} (sc : Sc) (h : ¬ ok4 r) :
    qParTail f r sc = (none, sc) ∨ qParTail f r sc = (some ([], r), sc) := by
  cases f with
  | zero => left; simp [qParTail]
  | succ f =>
    right
    cases r with
    | nil => simp [ok4] at h
    | cons t r => cases t <;> simp_all [qParTail, ok4]
theorem prodTail_stuck {f : Nat} {r : List Tok} (sc : Sc) (h : ¬ ok2 r) :
    qProdTail f r sc = (none, sc) ∨ qProdTail f r sc = (some ([], r), sc) := by
  cases f with
  | zero => left; simp [qProdTail]
  | succ f =>
    right
    cases r with
    | nil => simp [ok2] at h
    | cons t r => cases t <;> simp_all [qProdTail, ok2]
theorem sumTail_stuck {f : Nat} {r : List Tok} (sc : Sc) (h : ¬ ok1 r) :
    qSumTail f r sc = (none, sc) ∨ qSumTail f r sc = (some ([], r), sc) := by
  cases f with
  | zero => left; simp [qSumTail]
  | succ f =>
    right
    cases r with
    | nil => simp [ok1] at h
    | cons t r => cases t <;> simp_all [qSumTail, ok1]
theorem listTail_stuck {f : Nat} {r : List Tok} (sc : Sc) (h : ¬ ok0 r) :
    qListTail f r sc = (none, sc) ∨ qListTail f r sc = (some ([], r), sc) := by
  cases f with
  | zero => left; simp [qListTail]
  | succ f =>
    right
    cases r with
    | nil => simp [ok0] at h
    | cons t r => cases t <;> simp_all [qListTail, ok0]

theorem not_ok4_of_not_ok5 {r} (h : ¬ ok5 r) : ¬ ok4 r := fun h4 => h (ok5_of_ok4 h4)
theorem not_ok2_of_not_ok4 {r} (h : ¬ ok4 r) : ¬ ok2 r := fun h2 => h (ok4_of_ok2 h2)
theorem not_ok1_of_not_ok2 {r} (h : ¬ ok2 r) : ¬ ok1 r := fun h1 => h (ok2_of_ok1 h1)
theorem not_ok0_of_not_ok1 {r} (h : ¬ ok1 r) : ¬ ok0 r := fun h0 => h (ok1_of_ok0 h0)
theorem not_okL_of_not_ok0 {r} (h : ¬ ok0 r) : ¬ okL r := fun hL => h hL.1

/-! generic sequencing lemmas -/
theorem seqQ_inv {α β : Type} {nmA : α → Sc} {nmB : β → Sc} {okHi okLo : List Tok → Prop}
    (hmono : ∀ r, ¬ okHi r → ¬ okLo r) {sc : Sc}
    (head : QRes T) (tailf : List Tok → Sc → QRes α) (mk : T → α → β)
    (hmk : ∀ a rest, nmB (mk a rest) = names a ++ nmA rest)
    (hh : InvT okHi sc head)
    (ht : ∀ r sc1, InvG nmA okLo sc1 (tailf r sc1))
    (hs : ∀ r sc1, ¬ okHi r → tailf r sc1 = (none, sc1) ∨ ∃ e, tailf r sc1 = (some (e, r), sc1) ∧ nmA e = []) :
    InvG nmB okLo sc (seqQ head tailf mk) := by
  unfold seqQ
  rcases head with ⟨_ | ⟨a, r⟩, sc1⟩
  · simp [InvG]
  · simp only [InvG] at hh
    rcases hh with hc | hst
    · have hthis := ht r sc1
      dsimp only
      generalize tailf r sc1 = res at hthis ⊢
      rcases res with ⟨_ | ⟨rest, r'⟩, sc2⟩
      · simp [InvG]
      · simp only [InvG] at hthis ⊢
        rcases hthis with hc2 | hst2
        · exact Or.inl ((hc.trans hc2).congr (hmk a rest).symm)
        · exact Or.inr hst2
    · dsimp only
      rcases hs r sc1 hst with h | ⟨e, h, _⟩
      · simp [h, InvG]
      · simp only [h, InvG]; exact Or.inr (hmono r hst)

theorem iterQ_inv {γ : Type} {nmL : List γ → Sc} {okHi okLo : List Tok → Prop}
    (hmono : ∀ r, ¬ okHi r → ¬ okLo r) {sc : Sc}
    (operand : QRes T) (back : List Tok) (hback : ¬ okLo back)
    (tailf : List Tok → Sc → QRes (List γ)) (mk : T → γ)
    (hmk : ∀ t ts, nmL (mk t :: ts) = names t ++ nmL ts)
    (hh : InvT okHi sc operand)
    (ht : ∀ r sc1, InvG nmL okLo sc1 (tailf r sc1))
    (hs : ∀ r sc1, ¬ okHi r → tailf r sc1 = (none, sc1) ∨ tailf r sc1 = (some ([], r), sc1)) :
    InvG nmL okLo sc (iterQ operand back tailf mk) := by
  unfold iterQ
  rcases operand with ⟨_ | ⟨a, r⟩, sc1⟩
  · simp only [InvG]; exact Or.inr hback
  · simp only [InvG] at hh
    rcases hh with hc | hst
    · have hthis := ht r sc1
      dsimp only
      generalize tailf r sc1 = res at hthis ⊢
      rcases res with ⟨_ | ⟨rest, r'⟩, sc2⟩
      · simp [InvG]
      · simp only [InvG] at hthis ⊢
        rcases hthis with hc2 | hst2
        · exact Or.inl ((hc.trans hc2).congr (hmk a rest).symm)
        · exact Or.inr hst2
    · dsimp only
      rcases hs r sc1 hst with h | h
      · simp [h, InvG]
      · simp only [h, InvG]; exact Or.inr (hmono r hst)

end C03

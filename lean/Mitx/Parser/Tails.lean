import Mitx.Parser.PA
namespace C03
variable {V : Type} (A : Alg V)

abbrev Item (V : Type) := Bool × List Tok × V

def sumToks (items : List (Item V)) : List Tok :=
  items.flatMap (fun i => (if i.1 then Tok.minus else Tok.plus) :: i.2.1)
def prodToks (items : List (Item V)) : List Tok :=
  items.flatMap (fun i => (if i.1 then Tok.slash else Tok.star) :: i.2.1)
def parToks (items : List (List Tok × V)) : List Tok :=
  items.flatMap (fun i => Tok.pipe :: Tok.pipe :: i.1)
def listToks (items : List (List Tok × V)) : List Tok :=
  items.flatMap (fun i => Tok.comma :: i.1)

theorem evalP_nil : evalP A [] = [] := by simp [evalP]
theorem evalP_cons (b : Bool) (t : T) (ts : List (Bool × T)) : evalP A ((b, t) :: ts) = (b, evalT A t) :: evalP A ts := by
  simp [evalP]
theorem evalL_cons (t : T) (ts : List T) : evalL A (t :: ts) = evalT A t :: evalL A ts := by simp [evalL]

/-- a uniform fuel bound for a list of phrases -/
theorem uniform {p : Nat → List Tok → Res T} {ok : List Tok → Prop} (items : List (List Tok × V))
    (h : ∀ i ∈ items, PA A p ok i.1 i.2) :
    ∃ F, ∀ i ∈ items, ∀ f, F ≤ f → ∀ rest, ok rest → ∃ t, p f (i.1 ++ rest) = some (t, rest) ∧ evalT A t = i.2 := by
  induction items with
  | nil => exact ⟨0, by simp⟩
  | cons y ys ih =>
    obtain ⟨F1, h1⟩ := h y (by simp)
    obtain ⟨F2, h2⟩ := ih (fun x hx => h x (by simp [hx]))
    refine ⟨max F1 F2, ?_⟩
    intro x hx f hf rest hr
    rcases List.mem_cons.mp hx with rfl | hx
    · exact h1 f (by omega) rest hr
    · exact h2 x hx f (by omega) rest hr

theorem ok1_sumToks (items : List (Item V)) (rest : List Tok) (h : ok0 rest) : ok1 (sumToks items ++ rest) := by
  cases items with
  | nil => simpa [sumToks] using ok1_of_ok0 h
  | cons i is => simp only [sumToks, List.flatMap_cons, List.cons_append]; cases i.1 <;> simp [ok1]

theorem sumTail_ok (items : List (Item V)) (F : Nat)
    (h : ∀ i ∈ items, ∀ f, F ≤ f → ∀ rest, ok1 rest → ∃ t, pProduct f (i.2.1 ++ rest) = some (t, rest) ∧ evalT A t = i.2.2) :
    ∀ f, F + items.length + 1 ≤ f → ∀ rest, ok0 rest →
      ∃ ts, pSumTail f (sumToks items ++ rest) = some (ts, rest) ∧ evalP A ts = items.map (fun i => (i.1, i.2.2)) := by
  induction items with
  | nil =>
    intro f hf rest hr
    obtain ⟨f', rfl⟩ : ∃ f', f = f' + 1 := ⟨f - 1, by omega⟩
    exact ⟨[], by simpa [sumToks] using sumTail_nil hr, by simp [evalP]⟩
  | cons y ys ih =>
    intro f hf rest hr
    obtain ⟨f', rfl⟩ : ∃ f', f = f' + 1 := ⟨f - 1, by simp at hf; omega⟩
    simp only [List.length_cons] at hf
    obtain ⟨t, ht, hv⟩ := h y (by simp) f' (by omega) (sumToks ys ++ rest) (ok1_sumToks ys rest hr)
    obtain ⟨ts, hts, hvs⟩ := ih (fun x hx => h x (by simp [hx])) f' (by omega) rest hr
    refine ⟨(y.1, t) :: ts, ?_, by simp [evalP_cons, hv, hvs]⟩
    have : sumToks (y :: ys) ++ rest = (if y.1 then Tok.minus else Tok.plus) :: (y.2.1 ++ (sumToks ys ++ rest)) := by
      simp [sumToks]
    rw [this]
    cases hy : y.1 <;> simp [pSumTail, ht, hts]

theorem ok2_prodToks (items : List (Item V)) (rest : List Tok) (h : ok1 rest) : ok2 (prodToks items ++ rest) := by
  cases items with
  | nil => simpa [prodToks] using ok2_of_ok1 h
  | cons i is => simp only [prodToks, List.flatMap_cons, List.cons_append]; cases i.1 <;> simp [ok2]

theorem prodTail_ok (items : List (Item V)) (F : Nat)
    (h : ∀ i ∈ items, ∀ f, F ≤ f → ∀ rest, ok2 rest → ∃ t, pParallel f (i.2.1 ++ rest) = some (t, rest) ∧ evalT A t = i.2.2) :
    ∀ f, F + items.length + 1 ≤ f → ∀ rest, ok1 rest →
      ∃ ts, pProdTail f (prodToks items ++ rest) = some (ts, rest) ∧ evalP A ts = items.map (fun i => (i.1, i.2.2)) := by
  induction items with
  | nil =>
    intro f hf rest hr
    obtain ⟨f', rfl⟩ : ∃ f', f = f' + 1 := ⟨f - 1, by omega⟩
    exact ⟨[], by simpa [prodToks] using prodTail_nil hr, by simp [evalP]⟩
  | cons y ys ih =>
    intro f hf rest hr
    obtain ⟨f', rfl⟩ : ∃ f', f = f' + 1 := ⟨f - 1, by simp at hf; omega⟩
    simp only [List.length_cons] at hf
    obtain ⟨t, ht, hv⟩ := h y (by simp) f' (by omega) (prodToks ys ++ rest) (ok2_prodToks ys rest hr)
    obtain ⟨ts, hts, hvs⟩ := ih (fun x hx => h x (by simp [hx])) f' (by omega) rest hr
    refine ⟨(y.1, t) :: ts, ?_, by simp [evalP_cons, hv, hvs]⟩
    have : prodToks (y :: ys) ++ rest = (if y.1 then Tok.slash else Tok.star) :: (y.2.1 ++ (prodToks ys ++ rest)) := by
      simp [prodToks]
    rw [this]
    cases hy : y.1 <;> simp [pProdTail, ht, hts]

theorem ok4_parToks (items : List (List Tok × V)) (rest : List Tok) (h : ok2 rest) : ok4 (parToks items ++ rest) := by
  cases items with
  | nil => simpa [parToks] using ok4_of_ok2 h
  | cons i is => simp [parToks, ok4]

theorem parTail_ok (items : List (List Tok × V)) (F : Nat)
    (h : ∀ i ∈ items, ∀ f, F ≤ f → ∀ rest, ok4 rest → ∃ t, pNegation f (i.1 ++ rest) = some (t, rest) ∧ evalT A t = i.2) :
    ∀ f, F + items.length + 1 ≤ f → ∀ rest, ok2 rest →
      ∃ ts, pParTail f (parToks items ++ rest) = some (ts, rest) ∧ evalL A ts = items.map (·.2) := by
  induction items with
  | nil =>
    intro f hf rest hr
    obtain ⟨f', rfl⟩ : ∃ f', f = f' + 1 := ⟨f - 1, by omega⟩
    exact ⟨[], by simpa [parToks] using parTail_nil hr, by simp [evalL]⟩
  | cons y ys ih =>
    intro f hf rest hr
    obtain ⟨f', rfl⟩ : ∃ f', f = f' + 1 := ⟨f - 1, by simp at hf; omega⟩
    simp only [List.length_cons] at hf
    obtain ⟨t, ht, hv⟩ := h y (by simp) f' (by omega) (parToks ys ++ rest) (ok4_parToks ys rest hr)
    obtain ⟨ts, hts, hvs⟩ := ih (fun x hx => h x (by simp [hx])) f' (by omega) rest hr
    refine ⟨t :: ts, ?_, by simp [evalL_cons, hv, hvs]⟩
    have : parToks (y :: ys) ++ rest = Tok.pipe :: Tok.pipe :: (y.1 ++ (parToks ys ++ rest)) := by
      simp [parToks]
    rw [this]
    simp [pParTail, ht, hts]

/-- what may follow a comma-separated list: a closing bracket, in particular not a comma -/
def okL (r : List Tok) : Prop := ok0 r ∧ headNot .comma r

theorem ok0_listToks (items : List (List Tok × V)) (rest : List Tok) (h : okL rest) : ok0 (listToks items ++ rest) := by
  cases items with
  | nil => simpa [listToks] using h.1
  | cons i is => simp [listToks, ok0]

theorem listTail_nil {f : Nat} {r : List Tok} (h : okL r) : pListTail (f+1) r = some ([], r) := by
  cases r with
  | nil => simp [pListTail]
  | cons t r => cases t <;> simp_all [pListTail, okL, headNot]

theorem listTail_ok (items : List (List Tok × V)) (F : Nat)
    (h : ∀ i ∈ items, ∀ f, F ≤ f → ∀ rest, ok0 rest → ∃ t, pExpr f (i.1 ++ rest) = some (t, rest) ∧ evalT A t = i.2) :
    ∀ f, F + items.length + 1 ≤ f → ∀ rest, okL rest →
      ∃ ts, pListTail f (listToks items ++ rest) = some (ts, rest) ∧ evalL A ts = items.map (·.2) := by
  induction items with
  | nil =>
    intro f hf rest hr
    obtain ⟨f', rfl⟩ : ∃ f', f = f' + 1 := ⟨f - 1, by omega⟩
    exact ⟨[], by simpa [listToks] using listTail_nil hr, by simp [evalL]⟩
  | cons y ys ih =>
    intro f hf rest hr
    obtain ⟨f', rfl⟩ : ∃ f', f = f' + 1 := ⟨f - 1, by simp at hf; omega⟩
    simp only [List.length_cons] at hf
    obtain ⟨t, ht, hv⟩ := h y (by simp) f' (by omega) (listToks ys ++ rest) (ok0_listToks ys rest hr)
    obtain ⟨ts, hts, hvs⟩ := ih (fun x hx => h x (by simp [hx])) f' (by omega) rest hr
    refine ⟨t :: ts, ?_, by simp [evalL_cons, hv, hvs]⟩
    have : listToks (y :: ys) ++ rest = Tok.comma :: (y.1 ++ (listToks ys ++ rest)) := by
      simp [listToks]
    rw [this]
    simp [pListTail, ht, hts]

end C03

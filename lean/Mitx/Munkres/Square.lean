import Mitx.Munkres.TermRun
namespace Mk
open Finset

theorem singleton_of_nodup {α : Type} {l : List α} {a : α} (hnd : l.Nodup) (hall : ∀ x ∈ l, x = a) (hmem : a ∈ l) :
    l = [a] := by
  cases l with
  | nil => simp at hmem
  | cons x xs =>
    have hx : x = a := hall x (by simp)
    subst hx
    cases xs with
    | nil => rfl
    | cons y ys =>
      have hy : y = x := hall y (by simp)
      subst hy
      simp at hnd

theorem flatMap_singletons {α β : Type} (l : List α) (f : α → List β) (g : α → β) (h : ∀ x ∈ l, f x = [g x]) :
    l.flatMap f = l.map g := by
  induction l with
  | nil => rfl
  | cons x xs ih =>
    simp only [List.flatMap_cons, List.map_cons, h x (by simp)]
    rw [ih (fun y hy => h y (by simp [hy]))]; rfl

theorem row_extract (n : Nat) (mk : Nat → Nat → Nat) (i jt : Nat) (hjt : jt < n) (h1 : mk i jt = 1)
    (huniq : ∀ j, j < n → mk i j = 1 → j = jt) :
    (List.range n).filterMap (fun j => if mk i j == 1 then some (i, j) else none) = [(i, jt)] := by
  have hfm : (List.range n).filterMap (fun j => if mk i j == 1 then some (i, j) else none)
      = ((List.range n).filter (fun j => mk i j == 1)).map (fun j => (i, j)) := by
    rw [← List.filterMap_eq_map, List.filterMap_filter]
    congr 1
  rw [hfm]
  have : (List.range n).filter (fun j => mk i j == 1) = [jt] := by
    apply singleton_of_nodup ((List.nodup_range).filter _)
    · intro x hx
      simp only [List.mem_filter, List.mem_range, beq_iff_eq] at hx
      exact huniq x hx.1 hx.2
    · simp [hjt, h1]
  rw [this]; rfl

/-- the matrix as a total function (0 outside) -/
def matFn (m : List (List Rat)) : Nat → Nat → Rat := fun i j => (m.getD i []).getD j 0

structure IsSquare (m : List (List Rat)) (n : Nat) : Prop where
  pos : 0 < n
  rows : m.length = n
  cols : ∀ row ∈ m, row.length = n

theorem foldl_max_const (l : List Nat) (c a : Nat) (h : ∀ x ∈ l, x = c) (hne : l ≠ []) (ha : a ≤ c) :
    l.foldl max a = c := by
  induction l generalizing a with
  | nil => exact (hne rfl).elim
  | cons x xs ih =>
    have hx : x = c := h x (by simp)
    subst hx
    simp only [List.foldl_cons]
    cases xs with
    | nil => simp <;> omega
    | cons y ys => exact ih (max a x) (fun z hz => h z (by simp [hz])) (by simp) (by omega)

theorem pad_square {m n} (h : IsSquare m n) : pad m = (n, matFn m) := by
  unfold pad matFn
  have hne : m ≠ [] := by intro e; have := h.rows; simp [e] at this; have := h.pos; omega
  have : (m.map List.length).foldl max 0 = n :=
    foldl_max_const _ n 0 (by intro x hx; obtain ⟨row, hr, rfl⟩ := List.mem_map.mp hx; exact h.cols row hr)
      (by simpa using hne) (by omega)
  simp [this, h.rows]

/-- **Square matrices (the only shape the list graders produce).** The solver terminates; its output is
    `[(0, τ 0), (1, τ 1), …]` for a permutation `τ` of the columns, one pair per row in row order; and no
    permutation has a smaller total cost. -/
theorem compute_square {m : List (List Rat)} {n : Nat} (h : IsSquare m n) :
    ∃ τ : Equiv.Perm (Fin n),
      compute m = some ((List.range n).map (fun i => (i, if hi : i < n then ((τ ⟨i, hi⟩ : Fin n) : Nat) else 0))) ∧
      ∀ ρ : Equiv.Perm (Fin n),
        ∑ i : Fin n, matFn m (i : Nat) ((τ i : Fin n) : Nat) ≤ ∑ i : Fin n, matFn m (i : Nat) ((ρ i : Fin n) : Nat) := by
  let s0 : St := { n := n, C := matFn m, marked := fun _ _ => 0, rowCov := fun _ => false, colCov := fun _ => false, z0r := 0, z0c := 0 }
  have h0 : Init (matFn m) n s0 := ⟨rfl, fun _ _ _ _ => rfl, fun _ _ => rfl, fun _ => rfl, fun _ => rfl⟩
  obtain ⟨hb1, hm1, hc1⟩ := step1_inv h0
  have h2 := step2_inv hb1 hm1 hc1
  have hneed : need n .p3 (step2 (step1 s0)) ≤ 4 * n * n + 10 := by
    simp only [need]
    have h1 : (n - starcols n (step2 (step1 s0))) * (2 * n + 4) ≤ n * (2 * n + 4) :=
      Nat.mul_le_mul_right _ (Nat.sub_le _ _)
    have h3 : n * (2 * n + 4) = 2 * (n * n) + 4 * n := by ring
    have h4 : 4 * n * n = 4 * (n * n) := by ring
    rcases Nat.lt_or_ge n 3 with hlt | hge
    · interval_cases n <;> omega
    · have : 3 * n ≤ n * n := Nat.mul_le_mul_right n hge
      omega
  obtain ⟨s, hs⟩ := run_total h.pos _ .p3 _ h2 hneed
  have hdone := run_inv h.pos _ .p3 _ _ h2 hs
  obtain ⟨σ, hσ, hopt⟩ := done_optimal hdone
  obtain ⟨hb, _⟩ := hdone
  refine ⟨σ.symm, ?_, ?_⟩
  · unfold compute
    rw [pad_square h]
    simp only [bind, Option.bind]
    have hrun : run (4 * n * n + 10) Pc.p3 (step2 (step1 s0)) = some s := hs
    rw [hrun]
    simp only [pure]
    have hc : (m.headD []).length = n := by
      cases hm : m with
      | nil => have := h.rows; simp [hm] at this; have := h.pos; omega
      | cons row rest => simp; exact h.cols row (by simp [hm])
    rw [h.rows, hc]
    congr 1
    apply flatMap_singletons
    intro i hi
    have hi' : i < n := by simpa using hi
    simp only [hi', dite_true]
    apply row_extract n s.marked i (σ.symm ⟨i, hi'⟩) (σ.symm ⟨i, hi'⟩).2
    · have := hσ (σ.symm ⟨i, hi'⟩); simpa using this
    · intro j hj hm
      have h1 := hσ (σ.symm ⟨i, hi'⟩)
      simp only [Equiv.apply_symm_apply] at h1
      exact hb.rowU i j (σ.symm ⟨i, hi'⟩) hi' hj (σ.symm ⟨i, hi'⟩).2 hm h1
  · intro ρ
    have e1 : ∑ i : Fin n, matFn m (i : Nat) ((σ.symm i : Fin n) : Nat) = ∑ j : Fin n, matFn m ((σ j : Fin n) : Nat) (j : Nat) := by
      rw [← Equiv.sum_comp σ]; simp
    have e2 : ∑ i : Fin n, matFn m (i : Nat) ((ρ i : Fin n) : Nat) = ∑ j : Fin n, matFn m ((ρ.symm j : Fin n) : Nat) (j : Nat) := by
      rw [← Equiv.sum_comp ρ.symm]; simp
    rw [e1, e2]
    exact hopt ρ.symm

end Mk
#print axioms Mk.compute_square

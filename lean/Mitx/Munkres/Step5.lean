import Mitx.Munkres.Inv
namespace Mk

def flip (m : Nat → Nat → Nat) (p : Nat × Nat) : Nat → Nat → Nat :=
  if m p.1 p.2 == 1 then set2 m p.1 p.2 0 else set2 m p.1 p.2 1

theorem flip_fold (l : List (Nat × Nat)) (hnd : l.Nodup) (m : Nat → Nat → Nat) (i j : Nat) :
    (l.foldl flip m) i j = if (i, j) ∈ l then (if m i j = 1 then 0 else 1) else m i j := by
  induction l generalizing m with
  | nil => simp
  | cons p l ih =>
    have hnd' := List.nodup_cons.mp hnd
    rw [List.foldl_cons, ih hnd'.2]
    by_cases hp : (i, j) = p
    · subst hp
      simp [hnd'.1, flip]
      split <;> simp_all
    · have hp' : ¬(i = p.1 ∧ j = p.2) := by
        intro h; apply hp; cases p; simp_all
      have hfl : flip m p i j = m i j := by
        unfold flip; split <;> simp [hp']
      simp [hp, hfl]

/-- alternating path built by step 5 (head = most recent prime). -/
inductive GoodPath (n : Nat) (s : St) (tm : Nat → Nat) : List (Nat × Nat) → Prop
  | base : GoodPath n s tm [(s.z0r, s.z0c)]
  | step {path r0 c r c2} : GoodPath n s tm ((r0, c) :: path) →
      r < n → c2 < n → s.marked r c = 1 → s.marked r c2 = 2 → tm r < tm r0 →
      GoodPath n s tm ((r, c2) :: (r, c) :: (r0, c) :: path)

section
variable {C0 : Nat → Nat → ℚ} {n : Nat} {s : St} {tm : Nat → Nat}

theorem GoodPath.ne_nil {p} (h : GoodPath n s tm p) : p ≠ [] := by cases h <;> simp

/-- every cell: in range and marked 1 or 2; head is a prime -/
theorem GoodPath.cells (h5 : Phase5 n s tm) {p} (h : GoodPath n s tm p) :
    (∀ q ∈ p, q.1 < n ∧ q.2 < n ∧ (s.marked q.1 q.2 = 1 ∨ s.marked q.1 q.2 = 2)) ∧
    (∀ r c rest, p = (r, c) :: rest → s.marked r c = 2) := by
  induction h with
  | base =>
    refine ⟨?_, ?_⟩
    · intro q hq; simp at hq; subst hq; exact ⟨h5.z0.1, h5.z0.2.1, Or.inr h5.z0.2.2.1⟩
    · intro r c rest e; simp at e; obtain ⟨⟨rfl, rfl⟩, _⟩ := e; exact h5.z0.2.2.1
  | step hp hr hc2 hs hpr ht ih =>
    rename_i path r0 c r c2
    refine ⟨?_, ?_⟩
    · intro q hq
      simp only [List.mem_cons] at hq
      rcases hq with rfl | rfl | hq
      · exact ⟨hr, hc2, Or.inr hpr⟩
      · exact ⟨hr, (ih.1 (r0, c) (by simp)).2.1, Or.inl hs⟩
      · exact ih.1 q (by simpa using hq)
    · intro r' c' rest e; simp at e; obtain ⟨⟨rfl, rfl⟩, _⟩ := e; exact hpr

/-- head row has the least time -/
theorem GoodPath.tm_lb {p} (h : GoodPath n s tm p) :
    ∀ r c rest, p = (r, c) :: rest → ∀ q ∈ p, tm r ≤ tm q.1 := by
  induction h with
  | base => intro r c rest e q hq; simp at e hq; obtain ⟨⟨rfl, rfl⟩, _⟩ := e; subst hq; exact Nat.le_refl _
  | step hp hr hc2 hs hpr ht ih =>
    rename_i path r0 c r c2
    intro r' c' rest e q hq
    simp at e; obtain ⟨⟨rfl, rfl⟩, _⟩ := e
    simp only [List.mem_cons] at hq
    rcases hq with rfl | rfl | hq
    · exact Nat.le_refl _
    · exact Nat.le_refl _
    · have := ih r0 c path rfl q (by simpa using hq); omega

theorem GoodPath.nodup {p} (h : GoodPath n s tm p) : p.Nodup := by
  induction h with
  | base => simp
  | step hp hr hc2 hs hpr ht ih =>
    rename_i path r0 c r c2
    have hlb := hp.tm_lb r0 c path rfl
    have hnot : ∀ x, (r, x) ∉ (r0, c) :: path := by
      intro x hx; have := hlb _ hx; simp at this; omega
    refine List.nodup_cons.mpr ⟨?_, List.nodup_cons.mpr ⟨hnot c, ih⟩⟩
    intro hmem
    simp only [List.mem_cons] at hmem
    rcases hmem with e | hmem
    · simp at e; subst e; omega
    · exact hnot c2 (by simpa using hmem)

/-- a path prime is Z0 or shares its row with a path star -/
theorem GoodPath.prime_row {p} (h : GoodPath n s tm p) :
    ∀ i j, (i, j) ∈ p → s.marked i j = 2 → (i = s.z0r ∧ j = s.z0c) ∨ ∃ c, (i, c) ∈ p ∧ s.marked i c = 1 := by
  induction h with
  | base => intro i j hq _; simp at hq; exact Or.inl hq
  | step hp hr hc2 hs hpr ht ih =>
    rename_i path r0 c r c2
    intro i j hq hm
    simp only [List.mem_cons] at hq
    rcases hq with e | e | hq
    · simp at e; obtain ⟨rfl, rfl⟩ := e; exact Or.inr ⟨c, by simp, hs⟩
    · simp at e; obtain ⟨rfl, rfl⟩ := e; omega
    · rcases ih i j (by simpa using hq) hm with h | ⟨c', hc', hm'⟩
      · exact Or.inl h
      · exact Or.inr ⟨c', by simp only [List.mem_cons]; right; right; simpa using hc', hm'⟩

/-- a path prime is the head or shares its column with a path star whose row is a path row -/
theorem GoodPath.prime_col {p} (h : GoodPath n s tm p) :
    ∀ i j, (i, j) ∈ p → s.marked i j = 2 →
      (∃ rest, p = (i, j) :: rest) ∨ ∃ r, (r, j) ∈ p ∧ s.marked r j = 1 := by
  induction h with
  | base => intro i j hq _; simp at hq; obtain ⟨rfl, rfl⟩ := hq; exact Or.inl ⟨[], rfl⟩
  | step hp hr hc2 hs hpr ht ih =>
    rename_i path r0 c r c2
    intro i j hq hm
    simp only [List.mem_cons] at hq
    rcases hq with e | e | hq
    · simp at e; obtain ⟨rfl, rfl⟩ := e; exact Or.inl ⟨_, rfl⟩
    · simp at e; obtain ⟨rfl, rfl⟩ := e; omega
    · rcases ih i j (by simpa using hq) hm with ⟨rest, e⟩ | ⟨r', hr', hm'⟩
      · simp at e; obtain ⟨⟨rfl, rfl⟩, _⟩ := e
        exact Or.inr ⟨r, by simp, hs⟩
      · exact Or.inr ⟨r', by simp only [List.mem_cons]; right; right; simpa using hr', hm'⟩

/-- two path primes in the same column coincide -/
theorem GoodPath.prime_col_unique (h5 : Phase5 n s tm) {p} (h : GoodPath n s tm p) :
    ∀ i i' j, (i, j) ∈ p → (i', j) ∈ p → s.marked i j = 2 → s.marked i' j = 2 → i = i' := by
  induction h with
  | base => intro i i' j h1 h2 _ _; simp at h1 h2; omega
  | step hp hr hc2 hs hpr ht ih =>
    rename_i path r0 c r c2
    have hcells := (hp.cells h5).1
    have hlb := hp.tm_lb r0 c path rfl
    -- key: the new prime (r,c2) shares its column with no older path prime
    have key : ∀ i, (i, c2) ∈ (r0, c) :: path → s.marked i c2 = 2 → False := by
      intro i hi hm
      rcases hp.prime_col i c2 hi hm with ⟨rest, e⟩ | ⟨r', hr', hm'⟩
      · simp at e; obtain ⟨⟨rfl, rfl⟩, _⟩ := e; omega
      · have hc := hcells _ hr'
        have := (h5.order r r' c2 hr hc.1 hc2 hpr hm').2
        have := hlb _ hr'
        simp at this; omega
    intro i i' j h1 h2 m1 m2
    simp only [List.mem_cons] at h1 h2
    rcases h1 with e1 | e1 | h1 <;> rcases h2 with e2 | e2 | h2
    · simp at e1 e2; omega
    · simp at e1 e2; omega
    · simp at e1; obtain ⟨rfl, rfl⟩ := e1; exact (key i' (by simpa using h2) m2).elim
    · simp at e1 e2; omega
    · simp at e1 e2; omega
    · simp at e1; obtain ⟨rfl, rfl⟩ := e1; omega
    · simp at e2; obtain ⟨rfl, rfl⟩ := e2; exact (key i (by simpa using h1) m1).elim
    · simp at e2; obtain ⟨rfl, rfl⟩ := e2; omega
    · exact ih i i' j (by simpa using h1) (by simpa using h2) m1 m2

theorem buildPath_spec (hn : s.n = n) (h5 : Phase5 n s tm) : ∀ (f : Nat) (path p' : List (Nat × Nat)),
    GoodPath n s tm path → buildPath f s path = some p' →
    GoodPath n s tm p' ∧ ∃ r c rest, p' = (r, c) :: rest ∧ findStarInCol s c = none := by
  intro f
  induction f with
  | zero => intro path p' _ h; simp [buildPath] at h
  | succ f ih =>
    intro path p' hg h
    unfold buildPath at h
    split at h
    · simp at h
    · rename_i r0 c rest
      split at h
      · rename_i hnone
        simp at h; subst h
        exact ⟨hg, r0, c, rest, rfl, hnone⟩
      · rename_i r hr
        split at h
        · simp at h
        · rename_i c2 hc2
          have hr' := findStarInCol_some hr
          have hc2' := findPrimeInRow_some hc2
          rw [hn] at hr' hc2'
          have hcells := hg.cells h5
          have hhead := hcells.1 (r0, c) (by simp)
          have hheadm := hcells.2 r0 c rest rfl
          have ht := (h5.order r0 r c hhead.1 hr'.1 hhead.2.1 hheadm hr'.2).2
          exact ih _ _ (GoodPath.step hg hr'.1 hc2'.1 hr'.2 hc2'.2 ht) h

structure Clean (n : Nat) (s : St) : Prop where
  rowClear : ∀ i, s.rowCov i = false
  colClear : ∀ j, s.colCov j = false
  noPrime : ∀ i j, i < n → j < n → s.marked i j ≠ 2

theorem step5_inv (hb : Base C0 n s) (h5 : Phase5 n s tm) {s' : St} (h : step5 s = some s') :
    Base C0 n s' ∧ Clean n s' := by
  unfold step5 at h
  simp only [bind, Option.bind] at h
  split at h
  · simp at h
  · rename_i path hpath
    simp only [pure, Option.some.injEq] at h
    obtain ⟨hg, r, c, rest, hpe, hnone⟩ := buildPath_spec hb.hn h5 _ _ _ GoodPath.base hpath
    have hcells := hg.cells h5
    have hnd := hg.nodup
    have hnoStarCol := findStarInCol_none hnone
    rw [hb.hn] at hnoStarCol
    -- characterise the new marks
    have hmk : ∀ i j, (path.foldl (fun m (p : Nat × Nat) => if m p.1 p.2 == 1 then set2 m p.1 p.2 0 else set2 m p.1 p.2 1) s.marked) i j
        = if (i, j) ∈ path then (if s.marked i j = 1 then 0 else 1) else s.marked i j :=
      fun i j => flip_fold path hnd s.marked i j
    have hnew : ∀ i j, i < n → j < n → (s'.marked i j = 1 ↔
        ((i, j) ∈ path ∧ s.marked i j = 2) ∨ ((i, j) ∉ path ∧ s.marked i j = 1)) := by
      intro i j hi hj
      subst h
      simp only [hmk]
      by_cases hm : (i, j) ∈ path
      · have := (hcells.1 _ hm).2.2
        rcases this with h1 | h2 <;> simp_all
      · simp [hm]
        constructor
        · intro h; split at h <;> simp_all
        · intro h; simp [h]
    have hnot2 : ∀ i j, s'.marked i j ≠ 2 := by
      intro i j; subst h; simp only; split <;> simp_all
    refine ⟨⟨?_, ?_, ?_, ?_, ?_, ?_, ?_⟩, ⟨?_, ?_, ?_⟩⟩
    · subst h; exact hb.hn
    · subst h; exact hb.feas
    · subst h; exact hb.nonneg
    · intro i j hi hj hm
      have hC : s'.C = s.C := by subst h; rfl
      rw [hC]
      rcases (hnew i j hi hj).mp hm with ⟨_, h2⟩ | ⟨_, h1⟩
      · exact hb.primeZero i j hi hj h2
      · exact hb.starZero i j hi hj h1
    · intro i j hi hj hm; exact (hnot2 i j hm).elim
    · -- rowU
      intro i j j' hi hj hj' hm hm'
      rcases (hnew i j hi hj).mp hm with ⟨hp, h2⟩ | ⟨hp, h1⟩ <;>
        rcases (hnew i j' hi hj').mp hm' with ⟨hp', h2'⟩ | ⟨hp', h1'⟩
      · exact h5.primeU i j j' hi hj hj' h2 h2'
      · -- prime (i,j) on path, old star (i,j') off path
        rcases hg.prime_row i j hp h2 with ⟨rfl, rfl⟩ | ⟨c', hc', hm1⟩
        · exact (h5.z0.2.2.2.2 j' hj' h1').elim
        · have := hb.rowU i j' c' hi hj' (hcells.1 _ hc').2.1 h1' hm1
          subst this; exact (hp' hc').elim
      · rcases hg.prime_row i j' hp' h2' with ⟨rfl, rfl⟩ | ⟨c', hc', hm1⟩
        · exact (h5.z0.2.2.2.2 j hj h1).elim
        · have := hb.rowU i j c' hi hj (hcells.1 _ hc').2.1 h1 hm1
          subst this; exact (hp hc').elim
      · exact hb.rowU i j j' hi hj hj' h1 h1'
    · -- colU
      intro i i' j hi hi' hj hm hm'
      rcases (hnew i j hi hj).mp hm with ⟨hp, h2⟩ | ⟨hp, h1⟩ <;>
        rcases (hnew i' j hi' hj).mp hm' with ⟨hp', h2'⟩ | ⟨hp', h1'⟩
      · exact hg.prime_col_unique h5 i i' j hp hp' h2 h2'
      · rcases hg.prime_col i j hp h2 with ⟨rest', e⟩ | ⟨r', hr', hm1⟩
        · rw [hpe] at e; simp at e; obtain ⟨⟨rfl, rfl⟩, _⟩ := e
          exact (hnoStarCol i' hi' h1').elim
        · have := hb.colU i' r' j hi' (hcells.1 _ hr').1 hj h1' hm1
          subst this; exact (hp' hr').elim
      · rcases hg.prime_col i' j hp' h2' with ⟨rest', e⟩ | ⟨r', hr', hm1⟩
        · rw [hpe] at e; simp at e; obtain ⟨⟨rfl, rfl⟩, _⟩ := e
          exact (hnoStarCol i hi h1).elim
        · have := hb.colU i r' j hi (hcells.1 _ hr').1 hj h1 hm1
          subst this; exact (hp hr').elim
      · exact hb.colU i i' j hi hi' hj h1 h1'
    · intro i; subst h; rfl
    · intro j; subst h; rfl
    · intro i j _ _; exact hnot2 i j

end
end Mk

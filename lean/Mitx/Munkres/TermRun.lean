import Mitx.Munkres.Term6
import Mathlib.Tactic.IntervalCases
namespace Mk
open Finset

/-! ### step 3, termination-side facts -/
theorem step3_T {C0 n s} (hn : 0 < n) (hb : Base C0 n s) (hc : Clean n s) (hnd : (step3 s).2 = false) :
    PhaseT n (step3 s).1 0 ∧ starcols n (step3 s).1 = starcols n s ∧ starcols n s < n := by
  have hmk : (step3 s).1.marked = s.marked := rfl
  have hrow : (step3 s).1.rowCov = s.rowCov := rfl
  -- a star-free column
  have hfreeCol : ∃ j, j < n ∧ ∀ i, i < n → s.marked i j ≠ 1 := by
    by_contra hcon
    push Not at hcon
    have hall : ∀ j ∈ List.range s.n, (fun j => !s.colCov j && (List.range s.n).any (fun i => s.marked i j == 1)) j = true := by
      intro j hj
      have hj' : j < n := by rw [← hb.hn]; simpa using hj
      obtain ⟨i, hi, hm⟩ := hcon j hj'
      simp only [hc.colClear j, Bool.not_false, Bool.true_and, List.any_eq_true, List.mem_range]
      exact ⟨i, by rw [hb.hn]; exact hi, by simp [hm]⟩
    have hlen := List.filter_eq_self.mpr hall
    unfold step3 at hnd
    simp only [hlen, List.length_range, ge_iff_le, Nat.le_refl, decide_true] at hnd
    exact Bool.noConfusion hnd
  obtain ⟨j0, hj0, hfj0⟩ := hfreeCol
  -- a star-free row, by pigeonhole
  have hfreeRow : ∃ i, i < n ∧ ∀ j, j < n → s.marked i j ≠ 1 := by
    by_contra hcon
    push Not at hcon
    choose g hg using fun i : Fin n => hcon i i.2
    let f : Fin n → Fin n := fun i => ⟨g i, (hg i).1⟩
    have hinj : Function.Injective f := by
      intro i i' e
      have e' : g i = g i' := by simpa [f] using congrArg Fin.val e
      exact Fin.ext (hb.colU i i' (g i) i.2 i'.2 (hg i).1 (hg i).2 (by rw [e']; exact (hg i').2))
    obtain ⟨i, hi⟩ := (Finite.injective_iff_surjective.mp hinj) ⟨j0, hj0⟩
    have : g i = j0 := by simpa [f] using congrArg Fin.val hi
    exact hfj0 i i.2 (by rw [← this]; exact (hg i).2)
  refine ⟨⟨?_, ?_, ?_, ?_, ?_⟩, starcols_congr (fun _ _ => Iff.rfl), ?_⟩
  · intro i _ h; rw [hrow, hc.rowClear i] at h; exact Bool.noConfusion h
  · intro j hj h
    have : (s.colCov j || (List.range s.n).any (fun i => s.marked i j == 1)) = true := h
    simp only [hc.colClear j, Bool.false_or, List.any_eq_true, List.mem_range] at this
    obtain ⟨i, hi, hm⟩ := this
    exact ⟨i, by rw [← hb.hn]; exact hi, by rw [hmk]; simpa using hm⟩
  · exact hfreeRow
  · exact ⟨j0, hj0, hfj0⟩
  · show 0 + uncov n (step3 s).1 = n
    unfold uncov
    rw [hrow]
    have : (range n).filter (fun i => s.rowCov i = false) = range n := by
      apply filter_true_of_mem; intro i _; exact hc.rowClear i
    rw [this]; simp
  · unfold starcols
    have hss : (range n).filter (fun j => hasStar n s j = true) ⊂ range n := by
      apply filter_ssubset.mpr
      exact ⟨j0, by simpa using hj0, by
        simp only [hasStar_iff, not_exists, not_and]; exact fun i hi => hfj0 i hi⟩
    simpa using card_lt_card hss

theorem uncov_le (n : Nat) (s : St) : uncov n s ≤ n := by
  unfold uncov
  calc ((range n).filter _).card ≤ (range n).card := card_filter_le _ _
    _ = n := card_range n

theorem starcols_lt_of_free {n s} (h : ∃ j, j < n ∧ ∀ i, i < n → s.marked i j ≠ 1) : starcols n s < n := by
  obtain ⟨j0, hj0, hf⟩ := h
  unfold starcols
  have hss : (range n).filter (fun j => hasStar n s j = true) ⊂ range n := by
    apply filter_ssubset.mpr
    exact ⟨j0, by simpa using hj0, by simp only [hasStar_iff, not_exists, not_and]; exact fun i hi => hf i hi⟩
  simpa using card_lt_card hss

theorem step4_s5_found {f s row col s'} (h : step4 f s row col = some (s', .s5)) : findAZero s row col ≠ none := by
  cases f with
  | zero => simp [step4] at h
  | succ f =>
    intro hz
    unfold step4 at h
    simp [hz] at h

def RIT (C0 : Nat → Nat → ℚ) (n : Nat) : Pc → St → Prop
  | .p3, s => Base C0 n s ∧ Clean n s
  | .p4, s => Base C0 n s ∧ ∃ tm t, Phase n s tm t ∧ PhaseT n s t
  | .p5, s => Base C0 n s ∧ ∃ tm, Phase5 n s tm ∧ tm s.z0r ≤ n ∧ starcols n s < n
  | .p6, s => Base C0 n s ∧ ∃ tm t, Phase n s tm t ∧ PhaseT n s t

def need (n : Nat) : Pc → St → Nat
  | .p3, s => (n - starcols n s) * (2 * n + 4) + 2 * n + 4
  | .p4, s => (n - starcols n s) * (2 * n + 4) + 2 * uncov n s + (if findAZero s 0 0 = none then 3 else 1)
  | .p5, s => (n - starcols n s) * (2 * n + 4) + 1
  | .p6, s => (n - starcols n s) * (2 * n + 4) + 2 * uncov n s + 2

theorem run_total {C0 n} (hn : 0 < n) : ∀ (f : Nat) (pc : Pc) (s : St),
    RIT C0 n pc s → need n pc s ≤ f → ∃ s', run f pc s = some s' := by
  intro f
  induction f with
  | zero =>
    intro pc s _ h
    cases pc <;> simp only [need] at h <;> (try split at h) <;> omega
  | succ f ih =>
    intro pc s hri hneed
    cases pc with
    | p3 =>
      obtain ⟨hb, hc⟩ := hri
      simp only [run]
      split
      · exact ⟨_, rfl⟩
      · rename_i hd
        have hd' : (step3 s).2 = false := by simpa using hd
        obtain ⟨hb', _, hph, _⟩ := step3_inv hb hc
        obtain ⟨hT, hsc, hlt⟩ := step3_T hn hb hc hd'
        apply ih .p4 _ ⟨hb', _, _, hph hd', hT⟩
        have hu := hT.tcount
        simp only [need] at hneed ⊢
        rw [hsc]
        split <;> omega
    | p4 =>
      obtain ⟨hb, tm, t, hp, hT⟩ := hri
      have hfuel : uncov n s < s.n * s.n + 2 := by
        have := uncov_le n s
        rw [hb.hn]
        have : n ≤ n * n := Nat.le_mul_self n
        omega
      obtain ⟨s', nx, he, hb', hst, hres⟩ := step4_T hn _ s tm t 0 0 hb hp hT hfuel
      have hsc : starcols n s' = starcols n s := starcols_congr hst
      simp only [run, he]
      cases nx with
      | s6 =>
        simp only at hres ⊢
        obtain ⟨⟨tm', t', hp', hT'⟩, hle, hlt⟩ := hres
        apply ih .p6 _ ⟨hb', tm', t', hp', hT'⟩
        simp only [need] at hneed ⊢
        rw [hsc]
        split at hneed
        · omega
        · rename_i hz; have := hlt hz; omega
      | s5 =>
        simp only at hres ⊢
        obtain ⟨tm', hp5, htm⟩ := hres
        have hlt : starcols n s < n := starcols_lt_of_free hT.freeCol
        apply ih .p5 _ ⟨hb', tm', hp5, htm, by rw [hsc]; exact hlt⟩
        have hz := step4_s5_found he
        have hzs := hz
        obtain ⟨r, c, hrc⟩ : ∃ r c, findAZero s 0 0 = some (r, c) := by
          cases h : findAZero s 0 0 with
          | none => exact (hz h).elim
          | some p => exact ⟨p.1, p.2, rfl⟩
        have hz' := findAZero_some hrc (by rw [hb.hn]; exact hn)
        rw [hb.hn] at hz'
        have hu := uncov_pos hz'.1 hz'.2.2.2.1
        simp only [need] at hneed ⊢
        rw [hsc]
        split at hneed <;> omega
    | p5 =>
      obtain ⟨hb, tm, hp5, htm, hlt⟩ := hri
      obtain ⟨s', he, hsc⟩ := step5_T hb hp5 htm
      have hinv := step5_inv hb hp5 he
      simp only [run, he]
      apply ih .p3 _ hinv
      simp only [need] at hneed ⊢
      rw [hsc]
      obtain ⟨d, hd⟩ : ∃ d, n - starcols n s = d + 1 := ⟨n - starcols n s - 1, by omega⟩
      have hd' : n - (starcols n s + 1) = d := by omega
      rw [hd] at hneed
      rw [hd']
      have : (d + 1) * (2 * n + 4) = d * (2 * n + 4) + (2 * n + 4) := Nat.succ_mul _ _
      omega
    | p6 =>
      obtain ⟨hb, tm, t, hp, hT⟩ := hri
      obtain ⟨s', he, hb', hp', hT', hu, hsc, hz⟩ := step6_T hb hp hT
      simp only [run, he]
      apply ih .p4 _ ⟨hb', tm, t, hp', hT'⟩
      simp only [need] at hneed ⊢
      rw [hsc, hu]
      simp only [hz, if_false]
      omega

/-- Total correctness on an n×n matrix: with the fuel the model uses, the solver finishes, and what it
    returns is a minimum-cost perfect matching. -/
theorem munkres_total_correct {C0 n s0} (hn : 0 < n) (h0 : Init C0 n s0) :
    ∃ s, run (4 * n * n + 10) .p3 (step2 (step1 s0)) = some s ∧
      ∃ σ : Equiv.Perm (Fin n), (∀ j : Fin n, s.marked (σ j) j = 1) ∧
        ∀ τ : Equiv.Perm (Fin n), ∑ j, C0 (σ j) j ≤ ∑ j, C0 (τ j) j := by
  obtain ⟨hb1, hm1, hc1⟩ := step1_inv h0
  have h2 := step2_inv hb1 hm1 hc1
  have hneed : need n .p3 (step2 (step1 s0)) ≤ 4 * n * n + 10 := by
    simp only [need]
    have h1 : (n - starcols n (step2 (step1 s0))) * (2 * n + 4) ≤ n * (2 * n + 4) :=
      Nat.mul_le_mul_right _ (Nat.sub_le _ _)
    have h3 : n * (2 * n + 4) = 2 * (n * n) + 4 * n := by ring
    have h4 : 4 * n * n = 4 * (n * n) := by ring
    rcases Nat.lt_or_ge n 3 with h | h
    · interval_cases n <;> omega
    · have : 3 * n ≤ n * n := Nat.mul_le_mul_right n h
      omega
  obtain ⟨s, hs⟩ := run_total hn _ .p3 _ h2 hneed
  exact ⟨s, hs, munkres_partial_correct hn h0 hs⟩

end Mk
#print axioms Mk.munkres_total_correct

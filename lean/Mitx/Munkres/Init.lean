import Mitx.Munkres.Steps
namespace Mk

/-! ### step 1 -/
theorem foldMin_le (f : Nat → Rat) (l : List Nat) (acc : Rat) :
    l.foldl (fun m j => if f j < m then f j else m) acc ≤ acc ∧
    ∀ j ∈ l, l.foldl (fun m j => if f j < m then f j else m) acc ≤ f j := by
  induction l generalizing acc with
  | nil => simp
  | cons x l ih =>
    simp only [List.foldl_cons]
    by_cases hx : f x < acc
    · obtain ⟨h1, h2⟩ := ih (f x)
      simp only [hx, if_true]
      refine ⟨by linarith, ?_⟩
      intro j hj
      rcases List.mem_cons.mp hj with rfl | hj
      · exact h1
      · exact h2 j hj
    · obtain ⟨h1, h2⟩ := ih acc
      simp only [hx, if_false]
      refine ⟨h1, ?_⟩
      intro j hj
      rcases List.mem_cons.mp hj with rfl | hj
      · linarith [not_lt.mp hx]
      · exact h2 j hj

theorem rangeMin_le (n : Nat) (f : Nat → Rat) (j : Nat) (hj : j < n) : rangeMin n f ≤ f j :=
  (foldMin_le f (List.range n) (f 0)).2 j (by simpa using hj)

/-- the state handed to step 1 -/
structure Init (C0 : Nat → Nat → ℚ) (n : Nat) (s : St) : Prop where
  hn : s.n = n
  hC : ∀ i j, i < n → j < n → s.C i j = C0 i j
  hmark : ∀ i j, s.marked i j = 0
  hrow : ∀ i, s.rowCov i = false
  hcol : ∀ j, s.colCov j = false

theorem step1_inv {C0 n s} (h : Init C0 n s) :
    Base C0 n (step1 s) ∧ (∀ i j, (step1 s).marked i j = 0) ∧ (∀ j, (step1 s).colCov j = false) := by
  unfold step1
  refine ⟨⟨h.hn, ?_, ?_, ?_, ?_, ?_, ?_⟩, h.hmark, h.hcol⟩
  · refine ⟨fun i => rangeMin s.n (s.C i), fun _ => 0, ?_⟩
    intro i j hi hj
    simp [h.hn, hi, h.hC i j hi hj]
  · intro i j hi hj
    simp only [h.hn, hi, if_true]
    have := rangeMin_le n (s.C i) j hj
    linarith
  · intro i j _ _ hm; simp [h.hmark] at hm
  · intro i j _ _ hm; simp [h.hmark] at hm
  · intro i j j' _ _ _ hm; simp [h.hmark] at hm
  · intro i i' j _ _ _ hm; simp [h.hmark] at hm

/-! ### step 2 -/
def s2body (s : St) (acc : (Nat → Nat → Nat) × (Nat → Bool)) (i : Nat) : (Nat → Nat → Nat) × (Nat → Bool) :=
  match (List.range s.n).find? (fun j => s.C i j == 0 && !acc.2 j) with
  | some j => (set2 acc.1 i j 1, set1 acc.2 j true)
  | none => acc

structure J (s : St) (k : Nat) (acc : (Nat → Nat → Nat) × (Nat → Bool)) : Prop where
  bin : ∀ i j, acc.1 i j = 0 ∨ acc.1 i j = 1
  star : ∀ i j, acc.1 i j = 1 → i < k ∧ j < s.n ∧ s.C i j = 0 ∧ acc.2 j = true
  rowU : ∀ i j j', acc.1 i j = 1 → acc.1 i j' = 1 → j = j'
  colU : ∀ i i' j, acc.1 i j = 1 → acc.1 i' j = 1 → i = i'

theorem s2body_J {s : St} {k acc} (h : J s k acc) : J s (k + 1) (s2body s acc k) := by
  unfold s2body
  split
  · rename_i j hj
    have h1 := List.find?_some hj
    have h2 := List.mem_of_find?_eq_some hj
    simp at h1 h2
    have norow : ∀ j', acc.1 k j' ≠ 1 := fun j' hm => by have := (h.star k j' hm).1; omega
    have nocol : ∀ i, acc.1 i j ≠ 1 := fun i hm => by have := (h.star i j hm).2.2.2; simp [h1.2] at this
    refine ⟨?_, ?_, ?_, ?_⟩
    · intro a b; simp only [set2_apply]; split
      · exact Or.inr rfl
      · exact h.bin a b
    · intro a b hm; simp only [set2_apply] at hm
      simp only [set1_apply]
      split at hm
      · rename_i hab; obtain ⟨rfl, rfl⟩ := hab
        exact ⟨by omega, h2, h1.1, by simp⟩
      · have := h.star a b hm
        exact ⟨by omega, this.2.1, this.2.2.1, by split <;> simp [this.2.2.2]⟩
    · intro a b b' hm hm'; simp only [set2_apply] at hm hm'
      split at hm <;> split at hm'
      · rename_i h1 h2; omega
      · rename_i h1 _; obtain ⟨rfl, rfl⟩ := h1; exact (norow b' hm').elim
      · rename_i _ h2; obtain ⟨rfl, rfl⟩ := h2; exact (norow b hm).elim
      · exact h.rowU a b b' hm hm'
    · intro a a' b hm hm'; simp only [set2_apply] at hm hm'
      split at hm <;> split at hm'
      · rename_i h1 h2; omega
      · rename_i h1 _; obtain ⟨rfl, rfl⟩ := h1; exact (nocol a' hm').elim
      · rename_i _ h2; obtain ⟨rfl, rfl⟩ := h2; exact (nocol a hm).elim
      · exact h.colU a a' b hm hm'
  · exact ⟨h.bin, fun i j hm => by have := h.star i j hm; exact ⟨by omega, this.2⟩, h.rowU, h.colU⟩

theorem s2fold_J {s : St} (init) (h0 : J s 0 init) : ∀ k, J s k ((List.range k).foldl (s2body s) init) := by
  intro k
  induction k with
  | zero => simpa using h0
  | succ k ih => rw [List.range_succ, List.foldl_append]; simpa using s2body_J ih

theorem step2_inv {C0 n s} (hb : Base C0 n s) (hmark : ∀ i j, s.marked i j = 0) (hcol : ∀ j, s.colCov j = false) :
    Base C0 n (step2 s) ∧ Clean n (step2 s) := by
  have h0 : J s 0 (s.marked, s.colCov) :=
    ⟨fun i j => Or.inl (hmark i j), fun i j hm => by simp [hmark] at hm,
     fun i j j' hm => by simp [hmark] at hm, fun i i' j hm => by simp [hmark] at hm⟩
  have hJ := s2fold_J _ h0 s.n
  have hst : step2 s = { s with marked := Prod.fst ((List.range s.n).foldl (s2body s) (s.marked, s.colCov)), rowCov := fun _ => false, colCov := fun _ => false } := rfl
  rw [hst]
  refine ⟨⟨hb.hn, hb.feas, hb.nonneg, ?_, ?_, ?_, ?_⟩, ⟨fun _ => rfl, fun _ => rfl, ?_⟩⟩
  · intro i j _ _ hm; exact (hJ.star i j hm).2.2.1
  · intro i j _ _ hm; rcases hJ.bin i j with h | h <;> simp_all
  · intro i j j' _ _ _ hm hm'; exact hJ.rowU i j j' hm hm'
  · intro i i' j _ _ _ hm hm'; exact hJ.colU i i' j hm hm'
  · intro i j _ _ hm; rcases hJ.bin i j with h | h <;> simp_all

end Mk

import Mitx.Munkres.Square
import Mathlib.Logic.Equiv.Fintype
import Mathlib.Data.List.OfFn
import Mathlib.Algebra.BigOperators.Fin
/-! Rectangular matrices: `pad_matrix` squares the input with zeros, the square theorem applies to the padded
    matrix, and the stars read inside the original `r × c` window form a complete minimum-cost matching of the
    original matrix (zero padding changes neither the optimum nor the number of stars in the window). -/
namespace Mk
open Finset

structure IsRect (m : List (List Rat)) (r c : Nat) : Prop where
  rpos : 0 < r
  cpos : 0 < c
  rows : m.length = r
  cols : ∀ row ∈ m, row.length = c

/-- a list of index pairs is a matching inside the `r × c` window -/
structure Matching (r c : Nat) (l : List (Nat × Nat)) : Prop where
  rowsNodup : (l.map Prod.fst).Nodup
  colsNodup : (l.map Prod.snd).Nodup
  inWin : ∀ p ∈ l, p.1 < r ∧ p.2 < c

/-- total cost of a list of index pairs -/
def cost (m : List (List Rat)) (l : List (Nat × Nat)) : Rat := (l.map (fun p => matFn m p.1 p.2)).sum

theorem pad_rect {m r c} (h : IsRect m r c) : pad m = (max r c, matFn m) := by
  unfold pad matFn
  have hne : m ≠ [] := by intro e; have := h.rows; simp [e] at this; have := h.rpos; omega
  have : (m.map List.length).foldl max 0 = c :=
    foldl_max_const _ c 0 (by intro x hx; obtain ⟨row, hr, rfl⟩ := List.mem_map.mp hx; exact h.cols row hr)
      (by simpa using hne) (by omega)
  simp [this, h.rows]

theorem matFn_row_out {m r c} (h : IsRect m r c) {i : Nat} (hi : r ≤ i) (j : Nat) : matFn m i j = 0 := by
  unfold matFn
  simp [List.getElem?_eq_none (show m.length ≤ i by rw [h.rows]; exact hi)]

theorem matFn_col_out {m r c} (h : IsRect m r c) (i : Nat) {j : Nat} (hj : c ≤ j) : matFn m i j = 0 := by
  unfold matFn
  by_cases hi : i < m.length
  · have hl : m[i].length ≤ j := by rw [h.cols _ (List.getElem_mem hi)]; exact hj
    simp [List.getElem?_eq_getElem hi, List.getElem?_eq_none hl]
  · simp [List.getElem?_eq_none (show m.length ≤ i by omega)]

/-- the state `compute` starts from -/
def initSt (n : Nat) (C0 : Nat → Nat → Rat) : St :=
  { n := n, C := C0, marked := fun _ _ => 0, rowCov := fun _ => false, colCov := fun _ => false, z0r := 0, z0c := 0 }

/-- the run on an arbitrary cost function of size `n`: terminates with the model's fuel in a `Done` state whose stars
    are a minimum-cost perfect matching (column ↦ row) -/
theorem run_fn (C0 : Nat → Nat → Rat) {n : Nat} (hn : 0 < n) :
    ∃ (s : St) (σ : Equiv.Perm (Fin n)),
      run (4 * n * n + 10) .p3 (step2 (step1 (initSt n C0))) = some s ∧
      Base C0 n s ∧ (∀ j : Fin n, s.marked (σ j) j = 1) ∧
      ∀ τ : Equiv.Perm (Fin n), ∑ j, C0 (σ j) j ≤ ∑ j, C0 (τ j) j := by
  let s0 : St := initSt n C0
  have h0 : Init C0 n s0 := ⟨rfl, fun _ _ _ _ => rfl, fun _ _ => rfl, fun _ => rfl, fun _ => rfl⟩
  obtain ⟨hb1, hm1, hc1⟩ := step1_inv h0
  have h2 := step2_inv hb1 hm1 hc1
  have hneed : need n .p3 (step2 (step1 s0)) ≤ 4 * n * n + 10 := by
    simp only [need]
    have h1 : (n - starcols n (step2 (step1 s0))) * (2 * n + 4) ≤ n * (2 * n + 4) :=
      Nat.mul_le_mul_right _ (Nat.sub_le _ _)
    have h3 : n * (2 * n + 4) = 2 * (n * n) + 4 * n := by ring
    have h4 : 4 * n * n = 4 * (n * n) := by ring
    rcases Nat.lt_or_ge n 3 with hlt | hge
    · interval_cases n <;> omega
    · have : 3 * n ≤ n * n := Nat.mul_le_mul_right n hge
      omega
  obtain ⟨s, hs⟩ := run_total hn _ .p3 _ h2 hneed
  have hdone := run_inv hn _ .p3 _ _ h2 hs
  obtain ⟨σ, hσ, hopt⟩ := done_optimal hdone
  exact ⟨s, σ, hs, hdone.1, hσ, hopt⟩

/-- the list the solver returns: starred cells inside the window, row-major -/
def window (mk : Nat → Nat → Nat) (r c : Nat) : List (Nat × Nat) :=
  (List.range r).flatMap (fun i => (List.range c).filterMap (fun j => if mk i j == 1 then some (i, j) else none))

theorem mem_window {mk r c} {p : Nat × Nat} : p ∈ window mk r c ↔ p.1 < r ∧ p.2 < c ∧ mk p.1 p.2 = 1 := by
  obtain ⟨a, b⟩ := p
  unfold window
  simp only [List.mem_flatMap, List.mem_range, List.mem_filterMap]
  constructor
  · rintro ⟨i, hi, j, hj, h⟩
    split at h
    · next hm => simp only [Option.some.injEq, Prod.mk.injEq] at h; obtain ⟨rfl, rfl⟩ := h
                 exact ⟨hi, hj, by simpa using hm⟩
    · simp at h
  · rintro ⟨h1, h2, h3⟩
    exact ⟨a, h1, b, h2, by simp [h3]⟩

theorem window_nodup (mk : Nat → Nat → Nat) (r c : Nat) : (window mk r c).Nodup := by
  unfold window
  rw [List.nodup_flatMap]
  constructor
  · intro i _
    have : (List.range c).filterMap (fun j => if mk i j == 1 then some (i, j) else none)
        = ((List.range c).filter (fun j => mk i j == 1)).map (fun j => (i, j)) := by
      rw [← List.filterMap_eq_map, List.filterMap_filter]; congr 1
    rw [this]
    exact (List.nodup_range.filter _).map (fun a b h => by simpa using h)
  · apply List.Pairwise.imp _ (List.nodup_range (n := r))
    intro a b hab
    simp only [Function.onFun, List.disjoint_iff_ne]
    intro x hx y hy hxy
    simp only [List.mem_filterMap] at hx hy
    obtain ⟨j, _, hj⟩ := hx
    obtain ⟨j', _, hj'⟩ := hy
    split at hj <;> simp at hj
    split at hj' <;> simp at hj'
    subst hj hj'
    simp at hxy
    exact hab hxy.1

theorem window_matching {C0 n s r c} (hb : Base C0 n s) (hr : r ≤ n) (hc : c ≤ n) :
    Matching r c (window s.marked r c) := by
  refine ⟨?_, ?_, fun p hp => ⟨(mem_window.mp hp).1, (mem_window.mp hp).2.1⟩⟩
  · apply List.Nodup.map_on _ (window_nodup ..)
    intro p hp q hq e
    obtain ⟨p1, p2, p3⟩ := mem_window.mp hp
    obtain ⟨q1, q2, q3⟩ := mem_window.mp hq
    have := hb.rowU p.1 p.2 q.2 (by omega) (by omega) (by omega) p3 (by rw [e]; exact q3)
    exact Prod.ext e this
  · apply List.Nodup.map_on _ (window_nodup ..)
    intro p hp q hq e
    obtain ⟨p1, p2, p3⟩ := mem_window.mp hp
    obtain ⟨q1, q2, q3⟩ := mem_window.mp hq
    have := hb.colU p.1 q.1 p.2 (by omega) (by omega) (by omega) p3 (by rw [e]; exact q3)
    exact Prod.ext this e

theorem length_eq_of_nodup_range {l : List Nat} {k : Nat} (hnd : l.Nodup) (h1 : ∀ x ∈ l, x < k) (h2 : ∀ x, x < k → x ∈ l) :
    l.length = k := by
  have a : l.length ≤ (List.range k).length :=
    (List.Nodup.subperm hnd (fun x hx => List.mem_range.mpr (h1 x hx))).length_le
  have b : (List.range k).length ≤ l.length :=
    (List.Nodup.subperm List.nodup_range (fun x hx => h2 x (List.mem_range.mp hx))).length_le
  simp at a b; omega

theorem window_length {C0 n s r c} (hb : Base C0 n s) (σ : Equiv.Perm (Fin n)) (hσ : ∀ j : Fin n, s.marked (σ j) j = 1)
    (hn : n = max r c) : (window s.marked r c).length = min r c := by
  have hr : r ≤ n := by omega
  have hc : c ≤ n := by omega
  have hM := window_matching (r := r) (c := c) hb hr hc
  rcases Nat.le_total r c with hrc | hcr
  · -- every row of the window carries a star
    have : ((window s.marked r c).map Prod.fst).length = r := by
      apply length_eq_of_nodup_range hM.rowsNodup
      · intro x hx; obtain ⟨p, hp, rfl⟩ := List.mem_map.mp hx; exact (mem_window.mp hp).1
      · intro i hi
        have hin : i < n := by omega
        have h1 := hσ (σ.symm ⟨i, hin⟩)
        simp only [Equiv.apply_symm_apply] at h1
        exact List.mem_map.mpr ⟨(i, ((σ.symm ⟨i, hin⟩ : Fin n) : Nat)),
          mem_window.mpr ⟨hi, by have := (σ.symm ⟨i, hin⟩).2; omega, h1⟩, rfl⟩
    simp at this; omega
  · have : ((window s.marked r c).map Prod.snd).length = c := by
      apply length_eq_of_nodup_range hM.colsNodup
      · intro x hx; obtain ⟨p, hp, rfl⟩ := List.mem_map.mp hx; exact (mem_window.mp hp).2.1
      · intro j hj
        have hjn : j < n := by omega
        have h1 := hσ ⟨j, hjn⟩
        exact List.mem_map.mpr ⟨(((σ ⟨j, hjn⟩ : Fin n) : Nat), j),
          mem_window.mpr ⟨by have := (σ ⟨j, hjn⟩).2; omega, hj, h1⟩, rfl⟩
    simp at this; omega

/-- cost of the window list = cost of the whole perfect matching of the padded square (padding cells cost 0) -/
theorem window_cost {m r c n s} (h : IsRect m r c) (hb : Base (matFn m) n s) (σ : Equiv.Perm (Fin n))
    (hσ : ∀ j : Fin n, s.marked (σ j) j = 1) (hn : n = max r c) :
    cost m (window s.marked r c) = ∑ j : Fin n, matFn m (σ j) j := by
  classical
  let S : Finset (Nat × Nat) := univ.image (fun j : Fin n => (((σ j : Fin n) : Nat), (j : Nat)))
  have hS : ∑ p ∈ S, matFn m p.1 p.2 = ∑ j : Fin n, matFn m (σ j) j := by
    rw [Finset.sum_image]
    intro a _ b _ e
    simp only [Prod.mk.injEq] at e
    exact Fin.ext e.2
  have hW : (window s.marked r c).toFinset = S.filter (fun p => p.1 < r ∧ p.2 < c) := by
    ext p
    simp only [List.mem_toFinset, mem_window, Finset.mem_filter, S, Finset.mem_image, Finset.mem_univ, true_and]
    constructor
    · rintro ⟨h1, h2, h3⟩
      have hjn : p.2 < n := by omega
      refine ⟨⟨⟨p.2, hjn⟩, ?_⟩, h1, h2⟩
      have := hσ ⟨p.2, hjn⟩
      have e := hb.colU p.1 (σ ⟨p.2, hjn⟩) p.2 (by omega) (σ ⟨p.2, hjn⟩).2 hjn h3 this
      exact Prod.ext e.symm rfl
    · rintro ⟨⟨j, rfl⟩, h1, h2⟩
      exact ⟨h1, h2, hσ j⟩
  unfold cost
  rw [← List.sum_toFinset _ (window_nodup ..), hW, ← hS, ← Finset.sum_filter_add_sum_filter_not S (fun p => p.1 < r ∧ p.2 < c)]
  have : ∑ p ∈ S.filter (fun p => ¬(p.1 < r ∧ p.2 < c)), matFn m p.1 p.2 = 0 := by
    apply Finset.sum_eq_zero
    intro p hp
    simp only [Finset.mem_filter] at hp
    by_cases h1 : p.1 < r
    · exact matFn_col_out h _ (by have := hp.2; omega)
    · exact matFn_row_out h (by omega) _
  rw [this, add_zero]

theorem exists_perm_extending {n k : Nat} (f g : Fin k → Fin n) (hf : Function.Injective f) (hg : Function.Injective g) :
    ∃ τ : Equiv.Perm (Fin n), ∀ t, τ (g t) = f t := by
  classical
  let e : { x // x ∈ Set.range g } ≃ { x // x ∈ Set.range f } :=
    (Equiv.ofInjective g hg).symm.trans (Equiv.ofInjective f hf)
  refine ⟨e.extendSubtype, fun t => ?_⟩
  rw [Equiv.extendSubtype_apply_of_mem e (g t) ⟨t, rfl⟩]
  have : (Equiv.ofInjective g hg).symm ⟨g t, ⟨t, rfl⟩⟩ = t := by
    apply hg
    exact congrArg Subtype.val ((Equiv.ofInjective g hg).apply_symm_apply ⟨g t, ⟨t, rfl⟩⟩)
  simp [e, this]

theorem image_val_eq_range {n k : Nat} (f : Fin k → Fin n) (hf : Function.Injective f) (hlt : ∀ t, (f t : Nat) < k) :
    ∀ x, x < k → ∃ t, (f t : Nat) = x := by
  classical
  let A : Finset Nat := univ.image (fun t => (f t : Nat))
  have hsub : A ⊆ Finset.range k := by
    intro x hx
    simp only [A, Finset.mem_image, Finset.mem_univ, true_and] at hx
    obtain ⟨t, rfl⟩ := hx
    exact Finset.mem_range.mpr (hlt t)
  have hcard : A.card = k := by
    rw [Finset.card_image_of_injective _ (fun a b e => hf (Fin.ext e))]; simp
  have hA : A = Finset.range k := Finset.eq_of_subset_of_card_le hsub (by simp [hcard])
  intro x hx
  have : x ∈ A := by rw [hA]; exact Finset.mem_range.mpr hx
  simpa [A] using this

/-- every matching of full size inside the window costs exactly as much as some permutation of the padded square -/
theorem alt_as_perm {m r c n} (h : IsRect m r c) (hn : n = max r c) {alt : List (Nat × Nat)}
    (hM : Matching r c alt) (hlen : alt.length = min r c) :
    ∃ τ : Equiv.Perm (Fin n), ∑ j : Fin n, matFn m (τ j) j = cost m alt := by
  classical
  have hr : r ≤ n := by omega
  have hc : c ≤ n := by omega
  let k := alt.length
  let f : Fin k → Fin n := fun t => ⟨alt[(t : Nat)].1, by have := (hM.inWin _ (List.getElem_mem t.2)).1; omega⟩
  let g : Fin k → Fin n := fun t => ⟨alt[(t : Nat)].2, by have := (hM.inWin _ (List.getElem_mem t.2)).2; omega⟩
  have hf : Function.Injective f := by
    intro a b e
    have e' : alt[(a : Nat)].1 = alt[(b : Nat)].1 := congrArg Fin.val e
    have := (List.Nodup.getElem_inj_iff hM.rowsNodup (i := a) (j := b) (hi := by first | exact a.2 | (simp; exact a.2)) (hj := by first | exact b.2 | (simp; exact b.2))).mp (by simpa using e')
    exact Fin.ext this
  have hg : Function.Injective g := by
    intro a b e
    have e' : alt[(a : Nat)].2 = alt[(b : Nat)].2 := congrArg Fin.val e
    have := (List.Nodup.getElem_inj_iff hM.colsNodup (i := a) (j := b) (hi := by first | exact a.2 | (simp; exact a.2)) (hj := by first | exact b.2 | (simp; exact b.2))).mp (by simpa using e')
    exact Fin.ext this
  obtain ⟨τ, hτ⟩ := exists_perm_extending f g hf hg
  refine ⟨τ, ?_⟩
  have hcost : cost m alt = ∑ t : Fin k, matFn m (f t) (g t) := by
    unfold cost
    rw [← List.ofFn_getElem_eq_map, List.sum_ofFn]
  rw [hcost]
  let T : Finset (Fin n) := univ.image g
  have hT : ∑ j ∈ T, matFn m (τ j) j = ∑ t : Fin k, matFn m (f t) (g t) := by
    rw [Finset.sum_image (fun a _ b _ e => hg e)]
    apply Finset.sum_congr rfl
    intro t _
    rw [hτ t]
  have hrest : ∑ j ∈ Tᶜ, matFn m (τ j) j = 0 := by
    apply Finset.sum_eq_zero
    intro j hj
    have hjT : ∀ t, g t ≠ j := by
      intro t e
      simp only [T, Finset.mem_compl, Finset.mem_image, Finset.mem_univ, true_and, not_exists] at hj
      exact hj t e
    rcases Nat.le_total r c with hrc | hcr
    · -- all rows < r are used, so τ j is a padding row
      have hk : k = r := by simp only [k]; omega
      apply matFn_row_out h
      by_contra hlt
      have hlt' : ((τ j : Fin n) : Nat) < k := by omega
      obtain ⟨t, ht⟩ := image_val_eq_range f hf
        (fun t => by have := (hM.inWin _ (List.getElem_mem t.2)).1; show alt[(t : Nat)].1 < k; omega) _ hlt'
      have : f t = τ j := Fin.ext ht
      rw [← hτ t] at this
      exact hjT t (τ.injective this)
    · have hk : k = c := by simp only [k]; omega
      apply matFn_col_out h
      by_contra hlt
      have hlt' : (j : Nat) < k := by omega
      obtain ⟨t, ht⟩ := image_val_eq_range g hg
        (fun t => by have := (hM.inWin _ (List.getElem_mem t.2)).2; show alt[(t : Nat)].2 < k; omega) _ hlt'
      exact hjT t (Fin.ext ht)
  rw [← Finset.sum_add_sum_compl T, hT, hrest, add_zero]

/-- **Rectangular matrices of every shape.** The solver terminates; the list it returns is a matching inside the
    original `r × c` matrix, has exactly `min r c` pairs, and no matching of that size is cheaper. -/
theorem compute_rect {m : List (List Rat)} {r c : Nat} (h : IsRect m r c) :
    ∃ out, compute m = some out ∧ Matching r c out ∧ out.length = min r c ∧
      ∀ alt, Matching r c alt → alt.length = min r c → cost m out ≤ cost m alt := by
  have hnpos : 0 < max r c := by have := h.rpos; omega
  obtain ⟨s, σ, hrun, hb, hσ, hopt⟩ := run_fn (matFn m) hnpos
  have hcl : (m.headD []).length = c := by
    cases hm : m with
    | nil => have := h.rows; simp [hm] at this; have := h.rpos; omega
    | cons row rest => simp; exact h.cols row (by simp [hm])
  refine ⟨window s.marked r c, ?_, window_matching hb (by omega) (by omega), window_length hb σ hσ rfl, ?_⟩
  · unfold compute
    rw [pad_rect h]
    simp only [bind, Option.bind]
    have hrun' : run (4 * max r c * max r c + 10) Pc.p3 (step2 (step1 (initSt (max r c) (matFn m)))) = some s := hrun
    unfold initSt at hrun'
    rw [hrun']
    simp only [pure, h.rows, hcl]
    rfl
  · intro alt hM hlen
    obtain ⟨τ, hτ⟩ := alt_as_perm h rfl hM hlen
    rw [window_cost h hb σ hσ rfl, ← hτ]
    exact hopt τ

end Mk

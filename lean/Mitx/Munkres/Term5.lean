import Mitx.Munkres.Term
namespace Mk
open Finset

section
variable {C0 : Nat → Nat → ℚ} {n : Nat} {s : St} {tm : Nat → Nat}

/-- every path star is preceded (towards Z0) by a path prime in the same column -/
theorem GoodPath.star_prev (h5 : Phase5 n s tm) {p} (h : GoodPath n s tm p) :
    ∀ i j, (i, j) ∈ p → s.marked i j = 1 → ∃ r0, (r0, j) ∈ p ∧ s.marked r0 j = 2 := by
  induction h with
  | base =>
    intro i j hq hm; simp at hq; obtain ⟨rfl, rfl⟩ := hq
    have := h5.z0.2.2.1; omega
  | step hp hr hc2 hs hpr ht ih =>
    rename_i path r0 c r c2
    have hheadm := (hp.cells h5).2 r0 c path rfl
    intro i j hq hm
    simp only [List.mem_cons] at hq
    rcases hq with e | e | hq
    · simp at e; obtain ⟨rfl, rfl⟩ := e; omega
    · simp at e; obtain ⟨rfl, rfl⟩ := e
      exact ⟨r0, by simp, hheadm⟩
    · obtain ⟨r', hr', hm'⟩ := ih i j (by simpa using hq) hm
      exact ⟨r', by simp only [List.mem_cons]; right; right; simpa using hr', hm'⟩

theorem buildPath_total (hn : s.n = n) (h5 : Phase5 n s tm) : ∀ (f : Nat) (r0 c : Nat) (rest : List (Nat × Nat)),
    GoodPath n s tm ((r0, c) :: rest) → tm r0 < f → ∃ p', buildPath f s ((r0, c) :: rest) = some p' := by
  intro f
  induction f with
  | zero => intro r0 c rest _ h; omega
  | succ f ih =>
    intro r0 c rest hg hf
    unfold buildPath
    simp only
    split
    · exact ⟨_, rfl⟩
    · rename_i r hr
      have hr' := findStarInCol_some hr
      rw [hn] at hr'
      have hcells := hg.cells h5
      have hhead := hcells.1 (r0, c) (by simp)
      have hheadm := hcells.2 r0 c rest rfl
      have hord := h5.order r0 r c hhead.1 hr'.1 hhead.2.1 hheadm hr'.2
      obtain ⟨c2, hc2, hm2⟩ := h5.covPrime r hr'.1 hord.1
      split
      · rename_i hnone
        exact ((findPrimeInRow_none hnone c2 (by rw [hn]; exact hc2)) hm2).elim
      · rename_i c2' hc2'
        have hc2'' := findPrimeInRow_some hc2'
        rw [hn] at hc2''
        exact ih r c2' _ (GoodPath.step hg hr'.1 hc2''.1 hr'.2 hc2''.2 hord.2) (by omega)

end

/-- columns that contain a star -/
def hasStar (n : Nat) (s : St) (j : Nat) : Bool := (List.range n).any (fun i => s.marked i j == 1)
theorem hasStar_iff {n s j} : hasStar n s j = true ↔ ∃ i, i < n ∧ s.marked i j = 1 := by
  simp [hasStar]
def starcols (n : Nat) (s : St) : Nat := ((range n).filter (fun j => hasStar n s j = true)).card

theorem step5_T {C0 n s tm} (hb : Base C0 n s) (h5 : Phase5 n s tm) (htm : tm s.z0r ≤ n) :
    ∃ s', step5 s = some s' ∧ starcols n s' = starcols n s + 1 := by
  obtain ⟨path, hpath⟩ := buildPath_total hb.hn h5 (2 * s.n + 2) s.z0r s.z0c [] GoodPath.base (by rw [hb.hn]; omega)
  obtain ⟨hg, r, c, rest, hpe, hnone⟩ := buildPath_spec hb.hn h5 _ _ _ GoodPath.base hpath
  have hcells := hg.cells h5
  have hnd := hg.nodup
  have hnoStarCol := findStarInCol_none hnone
  rw [hb.hn] at hnoStarCol
  let fold := path.foldl (fun m (p : Nat × Nat) => if m p.1 p.2 == 1 then set2 m p.1 p.2 0 else set2 m p.1 p.2 1) s.marked
  let s' : St := { s with marked := fun i j => if fold i j == 2 then 0 else fold i j,
                          rowCov := fun _ => false, colCov := fun _ => false }
  have hstep : step5 s = some s' := by
    unfold step5; simp only [bind, Option.bind, hpath, pure]; rfl
  refine ⟨s', hstep, ?_⟩
  have hmk : ∀ i j, fold i j = if (i, j) ∈ path then (if s.marked i j = 1 then 0 else 1) else s.marked i j :=
    fun i j => flip_fold path hnd s.marked i j
  have hnew : ∀ i j, i < n → j < n → (s'.marked i j = 1 ↔
        ((i, j) ∈ path ∧ s.marked i j = 2) ∨ ((i, j) ∉ path ∧ s.marked i j = 1)) := by
    intro i j hi hj
    show (if fold i j == 2 then 0 else fold i j) = 1 ↔ _
    simp only [hmk]
    by_cases hm : (i, j) ∈ path
    · have := (hcells.1 _ hm).2.2
      rcases this with h1 | h2 <;> simp_all
    · simp [hm]
      constructor
      · intro h; split at h <;> simp_all
      · intro h; simp [h]
  have hheadm := hcells.2 r c rest hpe
  have hheadmem : (r, c) ∈ path := by rw [hpe]; simp
  have hhead := hcells.1 _ hheadmem
  -- star columns: new = insert c old
  have hset : (range n).filter (fun j => hasStar n s' j = true) = insert c ((range n).filter (fun j => hasStar n s j = true)) := by
    ext j
    simp only [mem_filter, mem_range, mem_insert, hasStar_iff]
    constructor
    · rintro ⟨hj, i, hi, hm⟩
      rcases (hnew i j hi hj).mp hm with ⟨hp, h2⟩ | ⟨hp, h1⟩
      · rcases hg.prime_col i j hp h2 with ⟨rest', e⟩ | ⟨r', hr', hm1⟩
        · rw [hpe] at e; simp at e; exact Or.inl e.1.2.symm
        · exact Or.inr ⟨hj, r', (hcells.1 _ hr').1, hm1⟩
      · exact Or.inr ⟨hj, i, hi, h1⟩
    · rintro (rfl | ⟨hj, i, hi, hm⟩)
      · exact ⟨hhead.2.1, r, hhead.1, (hnew r j hhead.1 hhead.2.1).mpr (Or.inl ⟨hheadmem, hheadm⟩)⟩
      · refine ⟨hj, ?_⟩
        by_cases hp : (i, j) ∈ path
        · obtain ⟨r0, hr0, hm0⟩ := hg.star_prev h5 i j hp hm
          exact ⟨r0, (hcells.1 _ hr0).1, (hnew r0 j (hcells.1 _ hr0).1 hj).mpr (Or.inl ⟨hr0, hm0⟩)⟩
        · exact ⟨i, hi, (hnew i j hi hj).mpr (Or.inr ⟨hp, hm⟩)⟩
  have hcnot : c ∉ (range n).filter (fun j => hasStar n s j = true) := by
    simp only [mem_filter, mem_range, hasStar_iff, not_and, not_exists]
    intro _ i hi
    exact hnoStarCol i hi
  unfold starcols
  rw [hset, card_insert_of_notMem hcnot]

end Mk

import Mitx.Munkres.Term5
namespace Mk
open Finset

/-! ### findAZero completeness (called with 0 0) -/
theorem findAZero_complete {s : St} {i j : Nat} (hi : i < s.n) (hj : j < s.n) (hz : s.C i j = 0)
    (hr : s.rowCov i = false) (hc : s.colCov j = false) : findAZero s 0 0 ≠ none := by
  unfold findAZero
  simp only [Nat.zero_add]
  intro h
  rw [List.findSome?_eq_none_iff] at h
  have hi' : i ∈ (List.range s.n).map (fun k => k % s.n) :=
    List.mem_map.mpr ⟨i, by simpa using hi, Nat.mod_eq_of_lt hi⟩
  have := h i hi'
  simp only [Option.map_eq_none_iff, List.getLast?_eq_none_iff] at this
  have hj' : j ∈ ((List.range s.n).map (fun k => k % s.n)).filter (fun j => s.C i j == 0 && !s.rowCov i && !s.colCov j) := by
    simp only [List.mem_filter, List.mem_map, List.mem_range]
    exact ⟨⟨j, hj, Nat.mod_eq_of_lt hj⟩, by simp [hz, hr, hc]⟩
  rw [this] at hj'
  simp at hj'

/-! ### step 6 totality -/
theorem minFold_some (l : List Rat) (a : Rat) : ∃ m, l.foldl minStep (some a) = some m := by
  induction l generalizing a with
  | nil => exact ⟨a, rfl⟩
  | cons x l ih => simp only [List.foldl_cons, minStep]; exact ih _

theorem findSmallest_total {s : St} {i j : Nat} (hi : i < s.n) (hj : j < s.n)
    (hr : s.rowCov i = false) (hc : s.colCov j = false) : ∃ m, findSmallest s = some m := by
  unfold findSmallest
  simp only
  generalize hcells : ((List.range s.n).flatMap fun i => (List.range s.n).filterMap fun j =>
      if (!s.rowCov i && !s.colCov j) = true then some (s.C i j) else none) = cells
  have hmem : s.C i j ∈ cells := by
    rw [← hcells]
    simp only [List.mem_flatMap, List.mem_range, List.mem_filterMap]
    exact ⟨i, hi, j, hj, by simp [hr, hc]⟩
  cases cells with
  | nil => simp at hmem
  | cons x l => exact minFold_some l x

theorem starcols_congr {n : Nat} {s s' : St} (h : ∀ i j, s'.marked i j = 1 ↔ s.marked i j = 1) :
    starcols n s' = starcols n s := by
  unfold starcols
  congr 1
  ext j
  simp only [mem_filter, mem_range, hasStar_iff]
  constructor
  · rintro ⟨hj, i, hi, hm⟩; exact ⟨hj, i, hi, (h i j).mp hm⟩
  · rintro ⟨hj, i, hi, hm⟩; exact ⟨hj, i, hi, (h i j).mpr hm⟩

theorem uncov_congr {n : Nat} {s s' : St} (h : s'.rowCov = s.rowCov) : uncov n s' = uncov n s := by
  unfold uncov; rw [h]

theorem free_uncovered {n s t} (hT : PhaseT n s t) :
    ∃ i j, i < n ∧ j < n ∧ s.rowCov i = false ∧ s.colCov j = false := by
  obtain ⟨i, hi, hfi⟩ := hT.freeRow
  obtain ⟨j, hj, hfj⟩ := hT.freeCol
  refine ⟨i, j, hi, hj, ?_, ?_⟩
  · cases h : s.rowCov i with
    | false => rfl
    | true => obtain ⟨j', hj', hm⟩ := hT.rowCovStar i hi h; exact (hfi j' hj' hm).elim
  · cases h : s.colCov j with
    | false => rfl
    | true => obtain ⟨i', hi', hm⟩ := hT.colCovStar j hj h; exact (hfj i' hi' hm).elim

theorem step6_T {C0 n s tm t} (hb : Base C0 n s) (hp : Phase n s tm t) (hT : PhaseT n s t) :
    ∃ s', step6 s = some s' ∧ Base C0 n s' ∧ Phase n s' tm t ∧ PhaseT n s' t ∧
      uncov n s' = uncov n s ∧ starcols n s' = starcols n s ∧ findAZero s' 0 0 ≠ none := by
  obtain ⟨i0, j0, hi0, hj0, hr0, hc0⟩ := free_uncovered hT
  obtain ⟨m, hm⟩ := findSmallest_total (by rw [hb.hn]; exact hi0) (by rw [hb.hn]; exact hj0) hr0 hc0
  obtain ⟨_, i, j, hi, hj, hri, hcj, hmeq⟩ := findSmallest_spec hm
  let s' : St := { s with C := fun i j => if !s.colCov j then (if s.rowCov i then s.C i j + m else s.C i j) - m else (if s.rowCov i then s.C i j + m else s.C i j) }
  have hstep : step6 s = some s' := by
    unfold step6; simp only [bind, Option.bind, hm, pure]; rfl
  obtain ⟨hb', hp'⟩ := step6_inv hb hp hstep
  refine ⟨s', hstep, hb', hp', ⟨hT.rowCovStar, hT.colCovStar, hT.freeRow, hT.freeCol, ?_⟩,
    uncov_congr rfl, starcols_congr (fun _ _ => Iff.rfl), ?_⟩
  · have := hT.tcount; rwa [uncov_congr (s' := s') rfl]
  · apply findAZero_complete (s := s') (i := i) (j := j) hi hj _ hri hcj
    show (if !s.colCov j then (if s.rowCov i then s.C i j + m else s.C i j) - m else (if s.rowCov i then s.C i j + m else s.C i j)) = 0
    simp [hri, hcj, hmeq]

end Mk

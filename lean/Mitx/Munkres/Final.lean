import Mitx.Munkres.Init
import Mathlib.Algebra.BigOperators.Group.Finset.Basic
import Mathlib.Algebra.Order.BigOperators.Group.Finset
import Mathlib.Data.Fintype.BigOperators
import Mathlib.Data.Fintype.EquivFin
namespace Mk
open Finset

def RI (C0 : Nat → Nat → ℚ) (n : Nat) : Pc → St → Prop
  | .p3, s => Base C0 n s ∧ Clean n s
  | .p4, s => Base C0 n s ∧ ∃ tm t, Phase n s tm t
  | .p5, s => Base C0 n s ∧ ∃ tm, Phase5 n s tm
  | .p6, s => Base C0 n s ∧ ∃ tm t, Phase n s tm t

def Done (C0 : Nat → Nat → ℚ) (n : Nat) (s : St) : Prop :=
  Base C0 n s ∧ ∀ j, j < n → ∃ i, i < n ∧ s.marked i j = 1

theorem run_inv {C0 n} (hn : 0 < n) : ∀ (f : Nat) (pc : Pc) (s s' : St),
    RI C0 n pc s → run f pc s = some s' → Done C0 n s' := by
  intro f
  induction f with
  | zero => intro pc s s' _ h; simp [run] at h
  | succ f ih =>
    intro pc s s' hri h
    cases pc with
    | p3 =>
      obtain ⟨hb, hc⟩ := hri
      obtain ⟨hb', hmk, hnd, hd⟩ := step3_inv hb hc
      simp only [run] at h
      split at h
      · rename_i hdone
        simp at h; subst h
        exact ⟨hb', fun j hj => by rw [hmk]; exact hd hdone j hj⟩
      · rename_i hdone
        exact ih .p4 _ _ ⟨hb', _, _, hnd (by simpa using hdone)⟩ h
    | p4 =>
      obtain ⟨hb, tm, t, hp⟩ := hri
      simp only [run] at h
      split at h
      · simp at h
      · rename_i s1 h4
        have := step4_inv hn _ _ _ _ _ _ _ _ hb hp h4
        exact ih .p5 _ _ ⟨this.1, this.2⟩ h
      · rename_i s1 h4
        have := step4_inv hn _ _ _ _ _ _ _ _ hb hp h4
        exact ih .p6 _ _ ⟨this.1, this.2⟩ h
    | p5 =>
      obtain ⟨hb, tm, hp⟩ := hri
      simp only [run] at h
      split at h
      · simp at h
      · rename_i s1 h5
        have := step5_inv hb hp h5
        exact ih .p3 _ _ this h
    | p6 =>
      obtain ⟨hb, tm, t, hp⟩ := hri
      simp only [run] at h
      split at h
      · simp at h
      · rename_i s1 h6
        have := step6_inv hb hp h6
        exact ih .p4 _ _ ⟨this.1, _, _, this.2⟩ h

/-- From a finished state: a perfect matching (column ↦ row) of starred cells that is minimum-cost for `C0`. -/
theorem done_optimal {C0 n s} (h : Done C0 n s) :
    ∃ σ : Equiv.Perm (Fin n), (∀ j : Fin n, s.marked (σ j) j = 1) ∧
      ∀ τ : Equiv.Perm (Fin n), ∑ j, C0 (σ j) j ≤ ∑ j, C0 (τ j) j := by
  obtain ⟨hb, hall⟩ := h
  choose g hg using fun j : Fin n => hall j j.2
  let fσ : Fin n → Fin n := fun j => ⟨g j, (hg j).1⟩
  have hinj : Function.Injective fσ := by
    intro j j' e
    have e' : g j = g j' := by simpa [fσ] using congrArg Fin.val e
    have := hb.rowU (g j) j j' (hg j).1 j.2 j'.2 (hg j).2 (by rw [e']; exact (hg j').2)
    exact Fin.ext this
  let σ : Equiv.Perm (Fin n) := Equiv.ofBijective fσ (Finite.injective_iff_bijective.mp hinj)
  have hσ : ∀ j, ((σ j : Fin n) : Nat) = g j := fun j => rfl
  refine ⟨σ, fun j => by rw [hσ]; exact (hg j).2, ?_⟩
  obtain ⟨u, v, huv⟩ := hb.feas
  intro τ
  have tight : ∀ j : Fin n, C0 (σ j) j = u (σ j) + v j := by
    intro j
    have h0 := hb.starZero (σ j) j (σ j).2 j.2 (by rw [hσ]; exact (hg j).2)
    have := huv (σ j) j (σ j).2 j.2
    linarith
  have feas : ∀ i j : Fin n, u i + v j ≤ C0 i j := by
    intro i j
    have h0 := hb.nonneg i j i.2 j.2
    have := huv i j i.2 j.2
    linarith
  have h1 : ∑ j, C0 (σ j) j = ∑ i : Fin n, u i + ∑ j : Fin n, v j := by
    simp only [tight, sum_add_distrib]
    congr 1
    exact Equiv.sum_comp σ (fun i : Fin n => u i)
  have h2 : ∑ i : Fin n, u i + ∑ j : Fin n, v j ≤ ∑ j, C0 (τ j) j := by
    have : ∑ i : Fin n, u i = ∑ j : Fin n, u (τ j) := (Equiv.sum_comp τ (fun i : Fin n => u i)).symm
    rw [this, ← sum_add_distrib]
    exact sum_le_sum (fun j _ => feas (τ j) j)
  linarith

/-- Partial correctness of the whole solver on an n×n matrix: if the step machine finishes, the starred
    cells form a minimum-cost perfect matching. -/
theorem munkres_partial_correct {C0 n s0 f s} (hn : 0 < n) (h0 : Init C0 n s0)
    (h : run f .p3 (step2 (step1 s0)) = some s) :
    ∃ σ : Equiv.Perm (Fin n), (∀ j : Fin n, s.marked (σ j) j = 1) ∧
      ∀ τ : Equiv.Perm (Fin n), ∑ j, C0 (σ j) j ≤ ∑ j, C0 (τ j) j := by
  obtain ⟨hb1, hm1, hc1⟩ := step1_inv h0
  have h2 := step2_inv hb1 hm1 hc1
  exact done_optimal (run_inv hn f .p3 _ _ h2 h)

end Mk
#print axioms Mk.munkres_partial_correct

import Mitx.Munkres.Step5
import Mathlib.Tactic.Ring
namespace Mk

/-! ### step 6 -/
def minStep (m : Option Rat) (x : Rat) : Option Rat :=
  match m with | none => some x | some y => some (if x < y then x else y)

theorem minFold (l : List Rat) : ∀ (acc : Option Rat) (m : Rat), l.foldl minStep acc = some m →
    (∀ x ∈ l, m ≤ x) ∧ (∀ a, acc = some a → m ≤ a) ∧ (m ∈ l ∨ acc = some m) := by
  induction l with
  | nil => intro acc m h; simp at h; subst h; simp
  | cons x l ih =>
    intro acc m h
    rw [List.foldl_cons] at h
    obtain ⟨h1, h2, h3⟩ := ih _ _ h
    cases acc with
    | none =>
      simp only [minStep] at h2 h3
      have := h2 x rfl
      refine ⟨?_, by simp, ?_⟩
      · intro y hy; rcases List.mem_cons.mp hy with rfl | hy
        · exact this
        · exact h1 y hy
      · rcases h3 with h3 | h3
        · exact Or.inl (List.mem_cons_of_mem _ h3)
        · simp at h3; subst h3; exact Or.inl (by simp)
    | some a =>
      simp only [minStep] at h2 h3
      have hm := h2 _ rfl
      refine ⟨?_, ?_, ?_⟩
      · intro y hy; rcases List.mem_cons.mp hy with rfl | hy
        · split at hm <;> linarith
        · exact h1 y hy
      · intro a' ha'; simp at ha'; subst ha'; split at hm <;> linarith
      · rcases h3 with h3 | h3
        · exact Or.inl (List.mem_cons_of_mem _ h3)
        · simp at h3; split at h3
          · subst h3; exact Or.inl (by simp)
          · subst h3; exact Or.inr rfl

theorem findSmallest_spec {s : St} {m : Rat} (h : findSmallest s = some m) :
    (∀ i j, i < s.n → j < s.n → s.rowCov i = false → s.colCov j = false → m ≤ s.C i j) ∧
    (∃ i j, i < s.n ∧ j < s.n ∧ s.rowCov i = false ∧ s.colCov j = false ∧ m = s.C i j) := by
  unfold findSmallest at h
  simp only at h
  have := minFold _ none m h
  obtain ⟨h1, _, h3⟩ := this
  constructor
  · intro i j hi hj hr hc
    apply h1
    simp only [List.mem_flatMap, List.mem_range, List.mem_filterMap]
    exact ⟨i, hi, j, hj, by simp [hr, hc]⟩
  · rcases h3 with h3 | h3
    · simp only [List.mem_flatMap, List.mem_range, List.mem_filterMap] at h3
      obtain ⟨i, hi, j, hj, hij⟩ := h3
      split at hij
      · rename_i hcov
        simp at hcov hij
        exact ⟨i, j, hi, hj, hcov.1, hcov.2, hij.symm⟩
      · simp at hij
    · simp at h3

theorem step6_inv {C0 n s tm t s'} (hb : Base C0 n s) (hp : Phase n s tm t) (h : step6 s = some s') :
    Base C0 n s' ∧ Phase n s' tm t := by
  unfold step6 at h
  simp only [bind, Option.bind] at h
  split at h
  · simp at h
  · rename_i m hm
    simp only [pure, Option.some.injEq] at h
    obtain ⟨hle, i0, j0, hi0, hj0, _, _, hmeq⟩ := findSmallest_spec hm
    rw [hb.hn] at hle hi0 hj0
    have hm0 : 0 ≤ m := by rw [hmeq]; exact hb.nonneg i0 j0 hi0 hj0
    subst h
    refine ⟨⟨hb.hn, ?_, ?_, ?_, ?_, hb.rowU, hb.colU⟩, ⟨hp.starCov, hp.primeCov, hp.primeU, hp.covPrime, hp.covTime, hp.order⟩⟩
    · obtain ⟨u, v, huv⟩ := hb.feas
      refine ⟨fun i => u i - (if s.rowCov i then m else 0), fun j => v j + (if !s.colCov j then m else 0), ?_⟩
      intro i j hi hj
      simp only [huv i j hi hj]
      cases s.rowCov i <;> cases s.colCov j <;> simp <;> ring
    · intro i j hi hj
      have h0 := hb.nonneg i j hi hj
      simp only
      cases hr : s.rowCov i <;> cases hc : s.colCov j <;> simp
      · have := hle i j hi hj hr hc; linarith
      · exact h0
      · exact h0
      · linarith
    · intro i j hi hj hstar
      have h0 := hb.starZero i j hi hj hstar
      have hcov := hp.starCov i j hi hj hstar
      simp only
      cases hr : s.rowCov i <;> cases hc : s.colCov j <;> simp_all
    · intro i j hi hj hpr
      have h0 := hb.primeZero i j hi hj hpr
      have hcov := hp.primeCov i j hi hj hpr
      simp only
      simp [hcov.1, hcov.2, h0]

/-! ### step 3 -/
theorem filter_range_full (n : Nat) (p : Nat → Bool) (h : n ≤ ((List.range n).filter p).length) :
    ∀ j, j < n → p j = true := by
  intro j hj
  have hlen : ((List.range n).filter p).length = (List.range n).length := by
    have := List.length_filter_le p (List.range n); simp at this ⊢; omega
  have := List.length_filter_eq_length_iff.mp hlen j (by simpa using hj)
  exact this

theorem step3_inv {C0 n s} (hb : Base C0 n s) (hc : Clean n s) :
    Base C0 n (step3 s).1 ∧ (step3 s).1.marked = s.marked ∧
    ((step3 s).2 = false → Phase n (step3 s).1 (fun _ => 0) 0) ∧
    ((step3 s).2 = true → ∀ j, j < n → ∃ i, i < n ∧ s.marked i j = 1) := by
  unfold step3
  simp only
  refine ⟨⟨hb.hn, hb.feas, hb.nonneg, hb.starZero, hb.primeZero, hb.rowU, hb.colU⟩, trivial, ?_, ?_⟩
  · intro _
    refine ⟨?_, ?_, ?_, ?_, ?_, ?_⟩
    · intro i j hi hj hm
      have hm : s.marked i j = 1 := hm
      simp only [hc.rowClear i, hc.colClear j, Bool.false_or]
      have : (List.range s.n).any (fun i => s.marked i j == 1) = true := by
        simp only [List.any_eq_true, List.mem_range]
        exact ⟨i, by rw [hb.hn]; exact hi, by simp [hm]⟩
      simp [this]
    · intro i j hi hj hm; exact (hc.noPrime i j hi hj hm).elim
    · intro i j j' hi hj _ hm; exact (hc.noPrime i j hi hj hm).elim
    · intro i _ h; simp [hc.rowClear i] at h
    · intro i _ h; simp [hc.rowClear i] at h
    · intro i i' j hi _ hj hm; exact (hc.noPrime i j hi hj hm).elim
  · intro hd
    simp only [ge_iff_le, decide_eq_true_eq] at hd
    intro j hj
    have := filter_range_full s.n _ hd j (by rw [hb.hn]; exact hj)
    simp only [hc.colClear j, Bool.not_false, Bool.true_and, List.any_eq_true, List.mem_range] at this
    obtain ⟨i, hi, hm⟩ := this
    exact ⟨i, by rw [← hb.hn]; exact hi, by simpa using hm⟩

end Mk

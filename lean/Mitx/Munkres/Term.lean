import Mitx.Munkres.Final
import Mathlib.Data.Finset.Card
namespace Mk
open Finset

/-- number of uncovered rows -/
def uncov (n : Nat) (s : St) : Nat := ((range n).filter (fun i => s.rowCov i = false)).card

theorem uncov_cover {n : Nat} {s : St} {r : Nat} (hr : r < n) (hrc : s.rowCov r = false)
    (s' : St) (h' : s'.rowCov = set1 s.rowCov r true) : uncov n s' + 1 = uncov n s := by
  unfold uncov
  have : (range n).filter (fun i => s'.rowCov i = false) = ((range n).filter (fun i => s.rowCov i = false)).erase r := by
    ext i
    simp only [mem_filter, mem_range, mem_erase, h', set1_apply]
    by_cases hir : i = r
    · subst hir; simp
    · simp [hir]
  rw [this, card_erase_of_mem (by simp [hr, hrc])]
  have : 0 < ((range n).filter (fun i => s.rowCov i = false)).card :=
    card_pos.mpr ⟨r, by simp [hr, hrc]⟩
  omega

/-- extra phase facts used only for termination -/
structure PhaseT (n : Nat) (s : St) (t : Nat) : Prop where
  rowCovStar : ∀ i, i < n → s.rowCov i = true → ∃ j, j < n ∧ s.marked i j = 1
  colCovStar : ∀ j, j < n → s.colCov j = true → ∃ i, i < n ∧ s.marked i j = 1
  freeRow : ∃ i, i < n ∧ ∀ j, j < n → s.marked i j ≠ 1
  freeCol : ∃ j, j < n ∧ ∀ i, i < n → s.marked i j ≠ 1
  tcount : t + uncov n s = n

theorem step4_iter_star_T {C0 n s tm t r c sc} (hb : Base C0 n s) (hp : Phase n s tm t) (hT : PhaseT n s t)
    (hr : r < n) (hc : c < n) (hrc : s.rowCov r = false) (hcc : s.colCov c = false)
    (hsc : sc < n) (hstar : s.marked r sc = 1) :
    let s' : St := { s with marked := set2 s.marked r c 2, rowCov := set1 s.rowCov r true, colCov := set1 s.colCov sc false }
    PhaseT n s' (t + 1) := by
  have hm1 : s.marked r c ≠ 1 := by
    intro h; have := hp.starCov r c hr hc h; simp [hrc, hcc] at this
  intro s'
  have star_iff : ∀ i j, s'.marked i j = 1 ↔ s.marked i j = 1 := by
    intro i j; simp only [s', set2_apply]
    split
    · rename_i hij; obtain ⟨rfl, rfl⟩ := hij; simp [hm1]
    · rfl
  refine ⟨?_, ?_, ?_, ?_, ?_⟩
  · intro i hi h
    simp only [s', set1_apply] at h
    by_cases hir : i = r
    · subst hir; exact ⟨sc, hsc, (star_iff _ _).mpr hstar⟩
    · simp [hir] at h
      obtain ⟨j, hj, hm⟩ := hT.rowCovStar i hi h
      exact ⟨j, hj, (star_iff _ _).mpr hm⟩
  · intro j hj h
    simp only [s', set1_apply] at h
    by_cases hjs : j = sc
    · simp [hjs] at h
    · simp [hjs] at h
      obtain ⟨i, hi, hm⟩ := hT.colCovStar j hj h
      exact ⟨i, hi, (star_iff _ _).mpr hm⟩
  · obtain ⟨i, hi, hf⟩ := hT.freeRow
    exact ⟨i, hi, fun j hj h => hf j hj ((star_iff _ _).mp h)⟩
  · obtain ⟨j, hj, hf⟩ := hT.freeCol
    exact ⟨j, hj, fun i hi h => hf i hi ((star_iff _ _).mp h)⟩
  · have := uncov_cover hr hrc s' rfl
    have := hT.tcount
    omega

theorem uncov_pos {n : Nat} {s : St} {r : Nat} (hr : r < n) (hrc : s.rowCov r = false) : 0 < uncov n s :=
  card_pos.mpr ⟨r, by simp [hr, hrc]⟩

theorem step4_T {C0 n} (hn : 0 < n) : ∀ (f : Nat) (s : St) (tm : Nat → Nat) (t row col : Nat),
    Base C0 n s → Phase n s tm t → PhaseT n s t → uncov n s < f →
    ∃ s' nx, step4 f s row col = some (s', nx) ∧ Base C0 n s' ∧
      (∀ i j, s'.marked i j = 1 ↔ s.marked i j = 1) ∧
      (match nx with
       | .s6 => (∃ tm' t', Phase n s' tm' t' ∧ PhaseT n s' t') ∧ uncov n s' ≤ uncov n s ∧
                (findAZero s row col ≠ none → uncov n s' + 1 ≤ uncov n s)
       | .s5 => ∃ tm', Phase5 n s' tm' ∧ tm' s'.z0r ≤ n) := by
  intro f
  induction f with
  | zero => intro s tm t row col _ _ _ h; omega
  | succ f ih =>
    intro s tm t row col hb hp hT hf
    unfold step4
    split
    · rename_i hz
      exact ⟨s, .s6, rfl, hb, fun _ _ => Iff.rfl, ⟨tm, t, hp, hT⟩, Nat.le_refl _, fun h => (h hz).elim⟩
    · rename_i r c hz
      have hz' := findAZero_some hz (by rw [hb.hn]; exact hn)
      rw [hb.hn] at hz'
      obtain ⟨hr, hc, hzero, hrc, hcc⟩ := hz'
      have hm1 : s.marked r c ≠ 1 := by
        intro h; have := hp.starCov r c hr hc h; simp [hrc, hcc] at this
      have star_iff : ∀ i j, set2 s.marked r c 2 i j = 1 ↔ s.marked i j = 1 := by
        intro i j; simp only [set2_apply]
        split
        · rename_i hij; obtain ⟨rfl, rfl⟩ := hij; simp [hm1]
        · rfl
      simp only
      split
      · rename_i sc hsc
        have hsc' := findStarInRow_some hsc
        simp only [hb.hn] at hsc'
        have hstar : s.marked r sc = 1 := (star_iff r sc).mp hsc'.2
        have h1 := step4_iter_star hb hp hr hc hzero hrc hcc hsc'.1 hstar
        have h2 := step4_iter_star_T hb hp hT hr hc hrc hcc hsc'.1 hstar
        have hu := uncov_cover hr hrc
          { s with marked := set2 s.marked r c 2, rowCov := set1 s.rowCov r true, colCov := set1 s.colCov sc false } rfl
        obtain ⟨s', nx, he, hb', hst, hres⟩ := ih _ _ _ r sc h1.1 h1.2 h2 (by omega)
        refine ⟨s', nx, he, hb', fun i j => (hst i j).trans (star_iff i j), ?_⟩
        cases nx with
        | s6 =>
          simp only at hres ⊢
          exact ⟨hres.1, by omega, fun _ => by omega⟩
        | s5 => exact hres
      · rename_i hnone
        have hno : ∀ j, j < n → s.marked r j ≠ 1 := by
          intro j hj hm
          have := findStarInRow_none hnone j (by simpa [hb.hn] using hj)
          exact this ((star_iff r j).mpr hm)
        have h1 := step4_iter_nostar hb hp hr hc hzero hrc hcc hno
        refine ⟨_, .s5, rfl, h1.1, fun i j => star_iff i j, _, h1.2, ?_⟩
        have := hT.tcount
        simp only [set1_apply, if_true]
        omega

end Mk

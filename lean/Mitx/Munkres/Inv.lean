import Mitx.Model.Munkres
import Mathlib.Tactic.Linarith
namespace Mk

/-! ### finder lemmas -/
theorem findStarInRow_some {s : St} {r c : Nat} (h : findStarInRow s r = some c) : c < s.n ∧ s.marked r c = 1 := by
  unfold findStarInRow at h
  have h1 := List.find?_some h
  have h2 := List.mem_of_find?_eq_some h
  simp at h1 h2
  exact ⟨h2, h1⟩
theorem findStarInRow_none {s : St} {r : Nat} (h : findStarInRow s r = none) : ∀ c, c < s.n → s.marked r c ≠ 1 := by
  unfold findStarInRow at h
  intro c hc
  have := List.find?_eq_none.mp h c (by simpa using hc)
  simpa using this
theorem findStarInCol_some {s : St} {r c : Nat} (h : findStarInCol s c = some r) : r < s.n ∧ s.marked r c = 1 := by
  unfold findStarInCol at h
  have h1 := List.find?_some h
  have h2 := List.mem_of_find?_eq_some h
  simp at h1 h2
  exact ⟨h2, h1⟩
theorem findStarInCol_none {s : St} {c : Nat} (h : findStarInCol s c = none) : ∀ r, r < s.n → s.marked r c ≠ 1 := by
  unfold findStarInCol at h
  intro r hr
  have := List.find?_eq_none.mp h r (by simpa using hr)
  simpa using this
theorem findPrimeInRow_some {s : St} {r c : Nat} (h : findPrimeInRow s r = some c) : c < s.n ∧ s.marked r c = 2 := by
  unfold findPrimeInRow at h
  have h1 := List.find?_some h
  have h2 := List.mem_of_find?_eq_some h
  simp at h1 h2
  exact ⟨h2, h1⟩
theorem findPrimeInRow_none {s : St} {r : Nat} (h : findPrimeInRow s r = none) : ∀ c, c < s.n → s.marked r c ≠ 2 := by
  unfold findPrimeInRow at h
  intro c hc
  have := List.find?_eq_none.mp h c (by simpa using hc)
  simpa using this

theorem findAZero_some {s : St} {i0 j0 r c : Nat} (h : findAZero s i0 j0 = some (r, c)) (hn : 0 < s.n) :
    r < s.n ∧ c < s.n ∧ s.C r c = 0 ∧ s.rowCov r = false ∧ s.colCov c = false := by
  unfold findAZero at h
  simp only at h
  obtain ⟨i, hi, hfi⟩ := List.exists_of_findSome?_eq_some h
  simp only [Option.map_eq_some_iff] at hfi
  obtain ⟨j, hj, hij⟩ := hfi
  have hjm := List.mem_of_getLast? hj
  simp only [List.mem_filter, List.mem_map, List.mem_range] at hjm hi
  obtain ⟨⟨k, hk, rfl⟩, hp⟩ := hjm
  obtain ⟨k', hk', rfl⟩ := hi
  simp only [Prod.mk.injEq] at hij
  obtain ⟨rfl, rfl⟩ := hij
  simp only [Bool.and_eq_true, beq_iff_eq, Bool.not_eq_true'] at hp
  exact ⟨Nat.mod_lt _ hn, Nat.mod_lt _ hn, hp.1.1, hp.1.2, hp.2⟩

@[simp] theorem set2_apply (f : Nat → Nat → α) (i j : Nat) (v : α) (a b : Nat) :
    set2 f i j v a b = if a = i ∧ b = j then v else f a b := rfl
@[simp] theorem set1_apply (f : Nat → α) (i : Nat) (v : α) (a : Nat) :
    set1 f i v a = if a = i then v else f a := rfl

/-! ### invariants -/
structure Base (C0 : Nat → Nat → ℚ) (n : Nat) (s : St) : Prop where
  hn : s.n = n
  feas : ∃ u v : Nat → ℚ, ∀ i j, i < n → j < n → s.C i j = C0 i j - u i - v j
  nonneg : ∀ i j, i < n → j < n → 0 ≤ s.C i j
  starZero : ∀ i j, i < n → j < n → s.marked i j = 1 → s.C i j = 0
  primeZero : ∀ i j, i < n → j < n → s.marked i j = 2 → s.C i j = 0
  rowU : ∀ i j j', i < n → j < n → j' < n → s.marked i j = 1 → s.marked i j' = 1 → j = j'
  colU : ∀ i i' j, i < n → i' < n → j < n → s.marked i j = 1 → s.marked i' j = 1 → i = i'

structure Phase (n : Nat) (s : St) (tm : Nat → Nat) (t : Nat) : Prop where
  starCov : ∀ i j, i < n → j < n → s.marked i j = 1 → s.rowCov i = !s.colCov j
  primeCov : ∀ i j, i < n → j < n → s.marked i j = 2 → s.rowCov i = true ∧ s.colCov j = false
  primeU : ∀ i j j', i < n → j < n → j' < n → s.marked i j = 2 → s.marked i j' = 2 → j = j'
  covPrime : ∀ i, i < n → s.rowCov i = true → ∃ j, j < n ∧ s.marked i j = 2
  covTime : ∀ i, i < n → s.rowCov i = true → tm i < t
  order : ∀ i i' j, i < n → i' < n → j < n → s.marked i j = 2 → s.marked i' j = 1 →
    s.rowCov i' = true ∧ tm i' < tm i

structure Phase5 (n : Nat) (s : St) (tm : Nat → Nat) : Prop where
  starCov : ∀ i j, i < n → j < n → s.marked i j = 1 → s.rowCov i = !s.colCov j
  primeCov : ∀ i j, i < n → j < n → s.marked i j = 2 → s.colCov j = false ∧ (s.rowCov i = true ∨ (i = s.z0r ∧ j = s.z0c))
  z0 : s.z0r < n ∧ s.z0c < n ∧ s.marked s.z0r s.z0c = 2 ∧ s.rowCov s.z0r = false ∧ ∀ j, j < n → s.marked s.z0r j ≠ 1
  primeU : ∀ i j j', i < n → j < n → j' < n → s.marked i j = 2 → s.marked i j' = 2 → j = j'
  covPrime : ∀ i, i < n → s.rowCov i = true → ∃ j, j < n ∧ s.marked i j = 2
  order : ∀ i i' j, i < n → i' < n → j < n → s.marked i j = 2 → s.marked i' j = 1 →
    s.rowCov i' = true ∧ tm i' < tm i

/-- one iteration of step 4, star-in-row case -/
theorem step4_iter_star {C0 n s tm t r c sc} (hb : Base C0 n s) (hp : Phase n s tm t)
    (hr : r < n) (hc : c < n) (hz : s.C r c = 0) (hrc : s.rowCov r = false) (hcc : s.colCov c = false)
    (hsc : sc < n) (hstar : s.marked r sc = 1) :
    let s' : St := { s with marked := set2 s.marked r c 2, rowCov := set1 s.rowCov r true, colCov := set1 s.colCov sc false }
    Base C0 n s' ∧ Phase n s' (set1 tm r t) (t + 1) := by
  -- the found zero is unmarked
  have hm0 : s.marked r c ≠ 1 := by
    intro h; have := hp.starCov r c hr hc h; simp [hrc, hcc] at this
  have hm2 : s.marked r c ≠ 2 := by
    intro h; have := (hp.primeCov r c hr hc h).1; simp [hrc] at this
  have hcsc : c ≠ sc := by
    intro h; subst h; exact hm0 hstar
  have hscCov : s.colCov sc = true := by
    have := hp.starCov r sc hr hsc hstar; simp [hrc] at this; simpa using this.symm
  intro s'
  refine ⟨⟨hb.hn, hb.feas, hb.nonneg, ?_, ?_, ?_, ?_⟩, ⟨?_, ?_, ?_, ?_, ?_, ?_⟩⟩
  · intro i j hi hj h; simp only [s', set2_apply] at h; split at h <;> simp_all
    exact hb.starZero i j hi hj h
  · intro i j hi hj h; simp only [s', set2_apply] at h
    split at h
    · rename_i hij; obtain ⟨rfl, rfl⟩ := hij; exact hz
    · exact hb.primeZero i j hi hj h
  · intro i j j' hi hj hj' h h'; simp only [s', set2_apply] at h h'
    split at h <;> split at h' <;> simp_all
    exact hb.rowU i j j' hi hj hj' h h'
  · intro i i' j hi hi' hj h h'; simp only [s', set2_apply] at h h'
    split at h <;> split at h' <;> simp_all
    exact hb.colU i i' j hi hi' hj h h'
  · -- starCov
    intro i j hi hj h; simp only [s', set2_apply] at h
    split at h
    · simp at h
    · have hcov := hp.starCov i j hi hj h
      simp only [s', set1_apply]
      by_cases hir : i = r
      · subst hir
        have : j = sc := hb.rowU i j sc hi hj hsc h hstar
        subst this; simp
      · have hjsc : j ≠ sc := by
          intro hj'; subst hj'; exact hir (hb.colU i r j hi hr hj h hstar)
        simp [hir, hjsc, hcov]
  · -- primeCov
    intro i j hi hj h; simp only [s', set2_apply] at h
    simp only [s', set1_apply]
    split at h
    · rename_i hij; obtain ⟨rfl, rfl⟩ := hij; simp [hcsc, hcc]
    · have := hp.primeCov i j hi hj h
      refine ⟨by split <;> simp [this.1], by split <;> simp [this.2]⟩
  · -- primeU
    intro i j j' hi hj hj' h h'; simp only [s', set2_apply] at h h'
    split at h <;> split at h'
    · simp_all
    · rename_i hij _; obtain ⟨rfl, rfl⟩ := hij
      have := (hp.primeCov i j' hi hj' h').1; simp [hrc] at this
    · rename_i _ hij; obtain ⟨rfl, rfl⟩ := hij
      have := (hp.primeCov i j hi hj h).1; simp [hrc] at this
    · exact hp.primeU i j j' hi hj hj' h h'
  · -- covPrime
    intro i hi h; simp only [s', set1_apply] at h
    by_cases hir : i = r
    · subst hir; exact ⟨c, hc, by simp [s']⟩
    · simp [hir] at h
      obtain ⟨j, hj, hm⟩ := hp.covPrime i hi h
      exact ⟨j, hj, by simp [s', hir, hm]⟩
  · -- covTime
    intro i hi h; simp only [s', set1_apply] at h ⊢
    by_cases hir : i = r
    · simp [hir]
    · simp [hir] at h ⊢; have := hp.covTime i hi h; omega
  · -- order
    intro i i' j hi hi' hj h h'; simp only [s', set2_apply] at h h'
    simp only [s', set1_apply]
    have h's : s.marked i' j = 1 := by split at h' <;> simp_all
    split at h
    · rename_i hij; obtain ⟨rfl, rfl⟩ := hij
      -- new prime at (r,c): star (i', c) has colCov c = false so its row is covered
      have hcov := hp.starCov i' j hi' hj h's
      simp [hcc] at hcov
      have hne : i' ≠ i := by intro e; subst e; simp [hrc] at hcov
      have := hp.covTime i' hi' hcov
      simp [hne, hcov]; omega
    · have := hp.order i i' j hi hi' hj h h's
      have hi'r : i' ≠ r := by intro e; subst e; simp [hrc] at this
      have hir : i ≠ r := by
        intro e; subst e; have := (hp.primeCov i j hi hj h).1; simp [hrc] at this
      simp [hi'r, hir, this]

/-- one iteration of step 4, no star in the row: exit to step 5 -/
theorem step4_iter_nostar {C0 n s tm t r c} (hb : Base C0 n s) (hp : Phase n s tm t)
    (hr : r < n) (hc : c < n) (hz : s.C r c = 0) (hrc : s.rowCov r = false) (hcc : s.colCov c = false)
    (hno : ∀ j, j < n → s.marked r j ≠ 1) :
    let s' : St := { s with marked := set2 s.marked r c 2, z0r := r, z0c := c }
    Base C0 n s' ∧ Phase5 n s' (set1 tm r t) := by
  have hm2 : s.marked r c ≠ 2 := by
    intro h; have := (hp.primeCov r c hr hc h).1; simp [hrc] at this
  intro s'
  refine ⟨⟨hb.hn, hb.feas, hb.nonneg, ?_, ?_, ?_, ?_⟩, ⟨?_, ?_, ?_, ?_, ?_, ?_⟩⟩
  · intro i j hi hj h; simp only [s', set2_apply] at h; split at h <;> simp_all
    exact hb.starZero i j hi hj h
  · intro i j hi hj h; simp only [s', set2_apply] at h
    split at h
    · rename_i hij; obtain ⟨rfl, rfl⟩ := hij; exact hz
    · exact hb.primeZero i j hi hj h
  · intro i j j' hi hj hj' h h'; simp only [s', set2_apply] at h h'
    split at h <;> split at h' <;> simp_all
    exact hb.rowU i j j' hi hj hj' h h'
  · intro i i' j hi hi' hj h h'; simp only [s', set2_apply] at h h'
    split at h <;> split at h' <;> simp_all
    exact hb.colU i i' j hi hi' hj h h'
  · intro i j hi hj h; simp only [s', set2_apply] at h
    split at h
    · simp at h
    · exact hp.starCov i j hi hj h
  · intro i j hi hj h; simp only [s', set2_apply] at h
    split at h
    · rename_i hij; obtain ⟨rfl, rfl⟩ := hij; exact ⟨hcc, Or.inr ⟨rfl, rfl⟩⟩
    · have := hp.primeCov i j hi hj h; exact ⟨this.2, Or.inl this.1⟩
  · refine ⟨hr, hc, by simp [s'], hrc, ?_⟩
    intro j hj h; simp only [s', set2_apply] at h
    split at h
    · simp at h
    · exact hno j hj h
  · intro i j j' hi hj hj' h h'; simp only [s', set2_apply] at h h'
    split at h <;> split at h'
    · simp_all
    · rename_i hij _; obtain ⟨rfl, rfl⟩ := hij
      have := (hp.primeCov i j' hi hj' h').1; simp [hrc] at this
    · rename_i _ hij; obtain ⟨rfl, rfl⟩ := hij
      have := (hp.primeCov i j hi hj h).1; simp [hrc] at this
    · exact hp.primeU i j j' hi hj hj' h h'
  · intro i hi h
    have h2 : s.rowCov i = true := h
    obtain ⟨j, hj, hm⟩ := hp.covPrime i hi h2
    have hir : i ≠ r := by intro e; rw [e, hrc] at h2; exact Bool.noConfusion h2
    exact ⟨j, hj, by simp [s', hir, hm]⟩
  · intro i i' j hi hi' hj h h'; simp only [s', set2_apply] at h h'
    show s.rowCov i' = true ∧ (set1 tm r t) i' < (set1 tm r t) i
    simp only [set1_apply]
    have h's : s.marked i' j = 1 := by split at h' <;> simp_all
    split at h
    · rename_i hij; obtain ⟨rfl, rfl⟩ := hij
      have hcov := hp.starCov i' j hi' hj h's
      simp [hcc] at hcov
      have hne : i' ≠ i := by intro e; subst e; simp [hrc] at hcov
      have := hp.covTime i' hi' hcov
      simp [hne, hcov]; omega
    · have := hp.order i i' j hi hi' hj h h's
      have hi'r : i' ≠ r := by intro e; subst e; simp [hrc] at this
      have hir : i ≠ r := by
        intro e; subst e; have := (hp.primeCov i j hi hj h).1; simp [hrc] at this
      simp [hi'r, hir, this]

/-- the whole step-4 loop -/
theorem step4_inv {C0 n} (hn : 0 < n) : ∀ (f : Nat) (s : St) (tm : Nat → Nat) (t row col : Nat) (s' : St) (nx : Next),
    Base C0 n s → Phase n s tm t → step4 f s row col = some (s', nx) →
    Base C0 n s' ∧ (match nx with
      | .s6 => ∃ tm' t', Phase n s' tm' t'
      | .s5 => ∃ tm', Phase5 n s' tm') := by
  intro f
  induction f with
  | zero => intro s tm t row col s' nx _ _ h; simp [step4] at h
  | succ f ih =>
    intro s tm t row col s' nx hb hp h
    unfold step4 at h
    split at h
    · -- no uncovered zero
      simp only [Option.some.injEq, Prod.mk.injEq] at h
      obtain ⟨rfl, rfl⟩ := h
      exact ⟨hb, tm, t, hp⟩
    · rename_i r c hz
      have hz' := findAZero_some hz (by rw [hb.hn]; exact hn)
      rw [hb.hn] at hz'
      obtain ⟨hr, hc, hzero, hrc, hcc⟩ := hz'
      simp only at h
      split at h
      · rename_i sc hsc
        have hsc' := findStarInRow_some hsc
        simp only [hb.hn, set2_apply] at hsc'
        have hstar : s.marked r sc = 1 := by
          have := hsc'.2; split at this <;> simp_all
        have := step4_iter_star hb hp hr hc hzero hrc hcc hsc'.1 hstar
        exact ih _ _ _ _ _ _ _ this.1 this.2 h
      · rename_i hnone
        have hno : ∀ j, j < n → s.marked r j ≠ 1 := by
          intro j hj hm
          have := findStarInRow_none hnone j (by simpa [hb.hn] using hj)
          simp only [set2_apply] at this
          split at this
          · rename_i hjc
            have hjc : j = c := hjc.2
            subst hjc
            have := hp.starCov r j hr hj hm
            simp [hrc, hcc] at this
          · exact this hm
        simp only [Option.some.injEq, Prod.mk.injEq] at h
        obtain ⟨rfl, rfl⟩ := h
        have := step4_iter_nostar hb hp hr hc hzero hrc hcc hno
        exact ⟨this.1, _, this.2⟩

end Mk
